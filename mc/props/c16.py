"""C16 - a RING reaction rule applies exactly its declared edit per match.

Space  : reactant patterns with 1-3 atoms over {C, C?, C., H, O?} and bonds
         {single, double} x every edit sequence up to the stated length over
         {break, break <kind>, form, form <kind>, increase order, decrease
         order, radical +1, radical -1, radical := n, modify bond} applied to
         every labelled atom / pair x a molecule set.
Oracle : models/ruleref.py - own electron bookkeeping decides
         balanced/unbalanced; own edit applier on a copy of the molecule gives
         the expected product set per ringref match.
Several reactants (domains/w3_c16.py; the i-th molecule belongs to the i-th
declared reactant, atoms of the reactants are labelled consecutively):
  bi    : 3 x 3 one/two-atom patterns, basic edits, names r1, r2 (wave 2)
  names : the same rules under every ordered pair of distinct reactant names
          from a small name alphabet (declaration order != sorted order,
          upper case, r10 against r2)
  bi2   : first reactants of 1-2 atoms x second reactants of 2-3 atoms with
          single and double bonds, the FULL edit alphabet of the unimolecular
          family on the labels of either reactant
  tri   : three reactants, every permutation of the names r1, r2, r3
Declared radical counts (domains/w4_c16.py): a carbon pattern atom states its
radical count by a suffix (none, `.`, `:`, `?`) or as `C?` with one constraint
`{[!] has <op> n radical electrons}`, op in {=, >=, <=, >, <}, n in 0..2:
  rad1  : one-atom rules, every declaration x every sequence of length <= 3
          over {radical +1, -1, := 0/1/2}
  rad2  : two-atom rules (declared atom first or second), + bond edits
  radb  : the declared atom as / in the second of two reactants
A pattern that admits several radical counts makes `radical := n` unbalanced
for some match (must be rejected) and makes `radical -1` inapplicable to
matched atoms without radical electrons (RunReactants must raise, not return).
Molecule presentations: aromatic compounds as parsed (aromatic bonds) and in
Kekule form with the aromatic flags cleared are part of the molecule set of
every unimolecular rule.
Repeated labels (domains/w5_c16.py): several pattern atoms carry one label (as
the hydrogens of the bundled patterns do) and the edits name that label.  The
property does not say which carrier a repeated label names, so a rule is
judged under every READING (one carrier per label) and a verdict is demanded
only where all readings agree:
  rep2  : every two-atom pattern with both atoms under one label, radical
          edits on that label
  rep3  : three-atom chains and stars over {C?, C., H}, the third atom
          repeating the label of the first or of the second, full block-level
          edit alphabet (thorough: + four-atom chains and stars over {C?, H})
unbalanced under every reading => RINGReaderError; balanced under every
reading => a rule whose product sets follow ONE reading on all molecules.
"""
import itertools

from ..runner import Result
from ..models import ringref, ruleref
from ..domains import molecules as MD
from ..domains import w3_c16 as W3
from ..domains import w4_c16 as W4
from ..domains import w5_c16 as W5

LEVEL = 'exploration'
ATOMS5 = ['C', 'C?', 'C.', 'H', 'O?']
ATOMS3 = ['C?', 'C.', 'H']
EXTRA_MOLS = ['CCC', 'C=CC', '[CH2]C[CH2]', 'C1CC1', 'CCO', '[H][H]', '[H]',
              'C#CC', '[CH2]C=C', 'OCC=O', '[CH]=[CH]', '[CH2][CH]C[C]=[CH]',
              '[CH]=[C]C[CH][CH2]', '[C]#[C]']
BOUND = {
    'quick': 'patterns: 5 one-atom, 50 two-atom (+8 with bonds of unspecified order), 108 three-atom chains; edit '
             'sequences: all of length <= 2 over the full edit alphabet, all of '
             'length 3 over the six basic edits; molecules M(2) C/O with '
             'radicals + 14; two-reactant rules: 3 x 3 patterns, all edit '
             'sequences of length <= 3 over the basic edits, 8 x 8 molecule pairs; '
             'reactant names: those 3 x 3 patterns x the 11 other ordered pairs of '
             'distinct names from {r1, r2, r10, B} x every balanced sequence of '
             'length <= 3 and every unbalanced one of length <= 2 over the basic '
             'edits, 5 x 5 molecule pairs; two-reactant rules with the full edit '
             'alphabet: 2 first reactants (1, 2 atoms) x 4 second reactants (C-H, '
             'C=C, C=C-C, C-C=C), all sequences of length <= 2 over the full '
             'alphabet, length 3 over basic + increase order + modify to '
             'single/double for rules of <= 3 atoms, 6 x 6 molecule pairs; '
             'three-reactant rules: 1 x 2 x 2 patterns x the 6 permutations of the '
             'names r1, r2, r3 x balanced sequences of length <= 3 and unbalanced '
             'ones of length <= 2 over the basic edits, 3 x 3 x 3 molecule triples; '
             'molecule presentations: toluene, benzene, furan, benzyl radical, each as '
             'parsed and in Kekule form with cleared aromatic flags, in the molecule '
             'set of every unimolecular rule (8 more molecules); declared radical '
             'counts: 34 declarations of a carbon pattern atom (C, C., C:, C?, and C? '
             'with has / ! has <op> n radical electrons, 5 operators x n in 0..2) x '
             '[one-atom rules, all sequences of length <= 3 over {+1, -1, := 0, := 1, '
             ':= 2}; 3 two-atom shapes, all sequences of length <= 2 and the balanced '
             'ones of length 3 over those + partner +1 / -1 + break / increase / '
             'decrease order; second reactant behind C?-H] and the 6 x 6 pairs of a '
             '6-letter sub-alphabet as two one-atom reactants (+ form bond across); 9 '
             'molecules with carbons of 0..3 radical electrons (two reactants: 4 x 4 '
             'pairs); 206 rule shapes; repeated labels: the 58 two-atom patterns with '
             'both atoms under one label x all sequences of length <= 3 over {radical '
             '+1, -1, := 0, := 1} on it; 27 x 4 x 2 three-atom patterns ({C?, C., H}^3 x '
             '{single, double}^2 x chain / star) x the 2 labellings in which the third '
             'atom repeats the label of the first or of the second x all sequences of '
             'length <= 2 over the full block-level alphabet (20 edits) and of length 3 '
             'over the basic one (8 edits); 490 labelled patterns; same molecules as the '
             'unimolecular family',
    'thorough': 'as quick with length-3 sequences over the full alphabet for '
                '1-2 atom patterns, length 4 over the basic edits, triple bonds '
                'and 4-atom chains; molecules M(3) C/O with radicals + 10; '
                'reactant names: the 29 other ordered pairs from {r1, r2, r10, B, '
                'a, z_9}, 8 x 8 molecule pairs; full-alphabet two-reactant rules: '
                'length 3 for rules of <= 4 atoms; three-reactant rules as quick; '
                'molecule presentations: 7 aromatic compounds x 2; declared radical '
                'counts: n in 0..3 (44 declarations), 5 two-atom shapes, first '
                'reactants C?-H and C., 14 molecules incl. [C] (two reactants: 5 x 5 '
                'pairs), 388 rule shapes; repeated labels: as quick with triple bonds in '
                'the two-atom patterns, + 16 x 6 four-atom single-bonded trees over '
                '{C?, H} x every labelling with a repeated label that keeps `bond to` '
                'unambiguous, sequences of length <= 2 over the basic block-level '
                'alphabet and the radical edits of every label, length 3 over the '
                'radical edits of the first repeated label; 995 labelled patterns; molecules of the thorough '
                'unimolecular family'}
RULE = ('every (pattern, edit sequence) is written as rule text and read; '
        'sequences that are well defined on the evolving pattern are judged: '
        'unbalanced => RINGReaderError, balanced => a rule; every rule that '
        'reads is run on every molecule and its product sets compared with the '
        'reference applier per reference match.  Non-trivial = a judged '
        'balanced rule, an unbalanced rule the reader must reject, or a run '
        'with at least one match.  Rules with several reactants: every '
        '(patterns, reactant names, edit sequence) is written as text and '
        'read, judged by the same bookkeeping on the concatenated pattern, and '
        'run on every tuple of molecules; expected = one product set per '
        'element of the cartesian product of the reference matches of the '
        'i-th declared pattern in the i-th molecule, edits applied to the '
        'disjoint union of the molecules; the molecule objects passed in must '
        'stay untouched.  Declared radical counts: the set of radical counts '
        '(0..4) a pattern atom admits is computed from its suffix and '
        'constraints; one stated value = the count is fixed and every edit is '
        'judged against it; several values = relative edits are judged as '
        'usual, and a sequence with radical := n on that atom is unbalanced '
        '(for every admitted count but one) => RINGReaderError; when run, a '
        '(rule, molecules) case in which some reference match meets a radical '
        'decrease on an atom without radical electrons, or an order change of '
        'an aromatic bond, must end with an exception, otherwise with exactly '
        'the reference product sets.  Repeated labels: every (pattern, '
        'labelling with a repeated label, edit sequence over the labels) is '
        'analysed under every reading (one carrier atom per label); where '
        'every reading is well defined and unbalanced the rule is read and '
        'must be rejected; where every reading is well defined and balanced '
        'it must be read, is run on every molecule, and the readings under '
        'which the product sets equal the reference are intersected over the '
        'molecules: the intersection must not become empty')
ASSUMPTIONS = ['charge edits and atom-type edits are not judged (the balance '
               'clause speaks of bond and radical edits)',
               'radical := n is judged on atoms whose pattern fixes the radical '
               'count (no suffix or `.`) and whose count no earlier edit of the '
               'sequence changed',
               'sequences that are ill defined on the evolving pattern (break '
               'of a bond whose order was changed before, increase of a '
               'non-bond, ...) are enumerated but not judged',
               'documented refusals (break/modify of a bond of unspecified or '
               'mismatching kind) may be rejected or accepted',
               'canonical SMILES of unsanitised fragments identify products',
               'rules with several reactants: the i-th molecule given to '
               'RunReactants belongs to the i-th reactant in order of declaration, '
               'whatever the reactants are called (reactant names are distinct); '
               'ill-defined sequences and documented refusals (incl. break/modify '
               'across reactants) are enumerated but not judged there',
               'in the name and three-reactant families unbalanced sequences '
               'longer than 2 edits are enumerated but not read',
               'declared radical counts: a count that is only implied (one value '
               'left by an inequality or a negation, e.g. `has <1`) is not accepted '
               'as a declaration for radical := n (either verdict allowed); a pattern '
               'that admits no count at all is not judged; for the bookkeeping an '
               'atom of unknown count stands in with two radical electrons, so '
               'sequences with three net decreases on it are not judged, nor is '
               'radical := n on an atom declared with more than 2 radical electrons '
               '(thorough tier only); in the rad2 '
               'and radb families unbalanced sequences of 3 edits are enumerated but '
               'not read',
               'a match that cannot take an edit (radical decrease on an atom without '
               'radical electrons, order change of an aromatic bond matched by a '
               'pattern bond of unspecified order) has no product set with exactly '
               'the declared edits: any exception is accepted as the refusal, a '
               'returned result is not',
               'Kekule presentations are made by RDKit (Kekulize with '
               'clearAromaticFlags); products of unsanitised fragments are compared '
               'as they are, without re-perceiving aromaticity',
               'repeated labels are legal (the bundled patterns use them); in an '
               'edit a repeated label names ONE of its carriers, the same one in '
               'every edit of the rule, the property does not say which: rules on '
               'which the readings disagree (ill defined or a documented refusal '
               'under some reading, or balanced under one and unbalanced under '
               'another) are enumerated but not judged; labellings in which a '
               '`bond to <label>` of the pattern could name two earlier atoms are '
               'not enumerated; a rule whose label pair names one block twice '
               '(bond edit between a label and itself) is not enumerated']
MANIFEST = dict(
    technique='bounded-exhaustive enumeration of rule programs x small '
              'molecules vs own electron bookkeeping and edit applier',
    text='All unimolecular rules built from 1-3 atom patterns and every edit '
         'sequence up to length 3 (4 in thorough) are read; balanced ones must '
         'be accepted and unbalanced ones rejected with RINGReaderError as '
         'decided by an independent per-atom electron count; every accepted '
         'rule is run on every small molecule and must give exactly one '
         'product set per reference match, equal (as a multiset of canonical '
         'SMILES) to the reference edit applier, conserving the atoms of every '
         'element.',
    note='Two-reactant rules over a 3x3 pattern alphabet with basic edit '
         'sequences up to length 3, also under every ordered pair of reactant '
         'names from a 4-name (thorough: 6-name) alphabet; two-reactant rules '
         'with 2-3 atom second reactants over the full edit alphabet up to '
         'length 2 (3 on small rules); a small three-reactant family; aromatic '
         'compounds as parsed and in Kekule form among the molecules; pattern '
         'atoms that declare their radical count by suffix or by a (negated) '
         '`has <op> n radical electrons` constraint in one- and two-atom rules and '
         'as second reactant, with radical := n required to be rejected where the '
         'pattern admits several counts and a radical decrease on a matched atom '
         'without radical electrons required to raise; patterns in which two '
         'atoms share a label (two-atom patterns under one label; three-atom '
         'chains and stars whose third atom repeats an earlier label) with the '
         'edits naming the shared label, judged where every reading of the '
         'label agrees; charge '
         'and atom-type edits are outside the bound.',
    ref='5/C16')


def patterns(tier):
    out = []
    for a in ATOMS5:
        out.append([(a, None)])
    kinds = ['single', 'double'] + (['triple'] if tier == 'thorough' else [])
    for a, b in itertools.product(ATOMS5, repeat=2):
        for k in kinds:
            out.append([(a, None), (b, (k, 0))])
    # pattern bonds of unspecified order between (radical) carbons
    for a, b in itertools.product(['C.', 'C?'], repeat=2):
        for k in ('any', 'nonring'):
            out.append([(a, None), (b, (k, 0))])
    for a, b, c in itertools.product(ATOMS3, repeat=3):
        for k1, k2 in itertools.product(['single', 'double'], repeat=2):
            out.append([(a, None), (b, (k1, 0)), (c, (k2, 1))])
    if tier == 'thorough':
        for a, b, c, d in itertools.product(['C?', 'H'], repeat=4):
            out.append([(a, None), (b, ('single', 0)), (c, ('single', 1)),
                        (d, ('single', 2))])
    return out


def edit_alphabet(atoms, full):
    n = len(atoms)
    bonds, _ = ruleref.pattern_tables(atoms)
    E = []
    for i in range(n):
        E += [('radinc', i), ('raddec', i)]
        if full:
            E += [('radset', i, 0), ('radset', i, 1)]
    for i, j in itertools.combinations(range(n), 2):
        if (i, j) in bonds:
            E += [('break', i, j, None), ('inc', i, j), ('dec', i, j)]
            if full:
                E += [('break', i, j, 'single'), ('break', j, i, 'double'),
                      ('modify', i, j, 'single'), ('modify', i, j, 'double'),
                      ('modify', j, i, 'triple'), ('modify', i, j, 'aromatic')]
        else:
            E += [('form', i, j, None)]
            if full:
                E += [('form', j, i, 'double'), ('form', i, j, 'aromatic')]
    return E


def sequences(atoms, tier):
    n = len(atoms)
    full = edit_alphabet(atoms, True)
    basic = edit_alphabet(atoms, False)
    seen = set()
    plan = [(1, full), (2, full)]
    if tier == 'quick':
        plan.append((3, basic))
    else:
        plan.append((3, full if n <= 2 else basic))
        if n <= 3:
            plan.append((4, basic))
    for L, E in plan:
        for seq in itertools.product(E, repeat=L):
            if seq not in seen:
                seen.add(seq)
                yield seq


_MOLS = {}


def molset(tier):
    if tier in _MOLS:
        return _MOLS[tier]
    from rdkit import Chem
    smis = MD.M(2 if tier == 'quick' else 3, ('C', 'O'), 2) + EXTRA_MOLS
    # wave 4: aromatic compounds as parsed and in Kekule form (`kek:` labels)
    smis = smis + W4.presentations(tier)
    out = []
    for s in smis:
        m = W4.mol_from(s)
        mh = Chem.AddHs(m)
        out.append((s, m, mh, ringref.G(mh)))
    _MOLS[tier] = out
    return out


def judge_rule(R, atoms, seq, tier, mols=None):
    from rdkit import Chem
    from pgradd.RINGParser import Read
    from pgradd.Error import RINGReaderError
    status, balanced = ruleref.analyse(atoms, seq)
    text = ruleref.rule_text(atoms, seq)
    R.evals += 1
    if status == 'open':
        R.outcomes['unjudged(ill-defined sequence)'] += 1
        return
    wit = dict(kind='rule', atoms=[list(a) if a[1] is None else [a[0], list(a[1])]
                                   for a in atoms], seq=[list(e) for e in seq],
               smiles=None)
    try:
        q = Read(text)
        got = 'rule'
    except RINGReaderError:
        got = 'RINGReaderError'
    except NotImplementedError:
        got = 'NotImplementedError'
    except Exception as e:      # noqa
        got = 'EXC:' + type(e).__name__
    sig = ','.join(sorted(set(e[0] for e in seq)))
    if status == 'refusal':
        R.outcomes['refusal-allowed:' + got] += 1
        if got.startswith('EXC') or (got == 'rule' and not balanced):
            R.violation('read:refusal-case-%s:%s' % (got, sig),
                        '%r: %s' % (text, got), wit)
        if got != 'rule' or not balanced:
            return
    elif not balanced:
        R.nontrivial += 1
        R.outcomes['unbalanced:' + got] += 1
        if got != 'RINGReaderError':
            R.violation('read:unbalanced-%s:%s' % (
                'accepted' if got == 'rule' else got, sig),
                '%r leaves an atom\'s electrons unbalanced; Read gave %s' % (
                    text, got), wit)
        return
    else:
        R.nontrivial += 1
        R.outcomes['balanced:' + got] += 1
        if got != 'rule':
            R.violation('read:balanced-%s:%s' % (got, sig),
                        '%r is balanced; Read gave %s' % (text, got), wit)
            return
    # run it
    fr = ringref.parse_fragment(ruleref.fragment_text(atoms))
    for smi, m, mh, g in (mols or molset(tier)):
        matches = ringref.ref_matches_g(fr, g)
        # a match that cannot take an edit (order change of an aromatic bond
        # matched by a pattern bond of unspecified order): no product set can
        # carry exactly the declared edits, RunReactants has to raise
        refuse = any(W4.inapplicable(mh, mt, seq) for mt in matches)
        exp = None if refuse else sorted(ruleref.apply_edits(mh, mt, seq) for mt in matches)
        R.evals += 1
        if matches:
            R.nontrivial += 1
        try:
            arg = Chem.Mol(m)
            before = (arg.GetNumAtoms(), Chem.MolToSmiles(arg))
            res = q.RunReactants(arg)
            if (arg.GetNumAtoms(), Chem.MolToSmiles(arg)) != before:
                R.violation('run:callers-molecule-modified:' + sig,
                            '%r on %s: the molecule object passed in was modified' % (text, smi),
                            dict(wit, smiles=smi))
            gotp = sorted(ruleref.product_key(ps) for ps in res)
            cons = all(ruleref.element_counts(ps) == ruleref.element_counts([mh])
                       for ps in res)
        except Exception as e:     # noqa
            gotp = 'EXC:%s' % type(e).__name__
            cons = True
        if refuse:
            if isinstance(gotp, str):
                R.outcomes['run:inapplicable:refused(%s)' % gotp[4:]] += 1
                continue
            R.outcomes['run:inapplicable:returned'] += 1
            R.violation('run:inapplicable-edit-returned:' + sig,
                        '%r on %s: at least one of the %d matches cannot take an edit '
                        '(order change of an aromatic bond / radical decrease without a '
                        'radical electron); RunReactants returned %r instead of raising'
                        % (text, smi, len(matches), gotp[:2]), dict(wit, smiles=smi))
            continue
        if gotp == exp and cons:
            R.outcomes['run:same:%s' % ('products' if exp else 'no-match')] += 1
            if exp:
                R.sample(dict(rule=text, molecule=smi, product_sets=exp[:2]), limit=2)
            continue
        w2 = dict(wit, smiles=smi)
        if not cons:
            R.violation('run:atoms-not-conserved:' + sig,
                        '%r on %s: a product set does not conserve the atoms'
                        % (text, smi), w2)
        cls = gotp if isinstance(gotp, str) else (
            'count' if len(gotp) != len(exp) else 'products')
        R.outcomes['run:differs:' + cls] += 1
        R.violation('run:%s:%s' % (cls, sig),
                    '%r on %s: %d reference matches -> %r; implementation -> %r'
                    % (text, smi, len(matches), exp[:3],
                       gotp if isinstance(gotp, str) else gotp[:3]), w2)


# ---------------------------------------------------------------- two reactants

R1S = [[('C.', None)], [('O.', None)], [('C?', None), ('H', ('single', 0))]]
R2S = [[('C.', None)], [('H.', None)], [('C?', None), ('H', ('single', 0))]]
BI_MOLS = ['[CH3]', '[OH]', '[H]', 'C', 'CC', 'C[CH2]', 'C[O]', 'O']


def bi_text(a1, a2, seq):
    lab = lambda i: 'a%d' % i      # noqa
    n1 = len(a1)
    p1 = ruleref.pattern_text(a1, lab)
    p2 = ruleref.pattern_text([(sp, None if b is None else (b[0], b[1] + n1))
                               for sp, b in a2], lambda i: 'a%d' % (i + n1))
    # pattern_text numbers r2's atoms from n1 on, and its bond references too
    p2 = ' '.join('%s labeled a%d%s' % (sp, k + n1, '' if b is None else
                                        ' %s bond to a%d' % (b[0], b[1] + n1))
                  for k, (sp, b) in enumerate(a2))
    return 'rule b{ reactant r1{ %s } reactant r2{ %s } %s }' % (
        p1, p2, ' '.join(ruleref.edit_text(e, lab) for e in seq))


def bi_sequences(atoms):
    n = len(atoms)
    bonds, _ = ruleref.pattern_tables(atoms)
    E = []
    for i in range(n):
        E += [('radinc', i), ('raddec', i)]
    for i, j in itertools.combinations(range(n), 2):
        if (i, j) in bonds:
            E += [('break', i, j, None), ('dec', i, j)]
        else:
            E += [('form', i, j, None)]
    for L in (1, 2, 3):
        for seq in itertools.product(E, repeat=L):
            yield seq


def judge_bi(R, a1, a2, seq, only_pair=None):
    from rdkit import Chem
    from pgradd.RINGParser import Read
    from pgradd.Error import RINGReaderError
    n1 = len(a1)
    atoms = list(a1) + [(sp, None if b is None else (b[0], b[1] + n1)) for sp, b in a2]
    status, balanced = ruleref.analyse(atoms, seq)
    R.evals += 1
    if status != 'judged':
        R.outcomes['bi:unjudged'] += 1
        return
    # a bond edit other than 'form' across the two reactants is a documented refusal
    text = bi_text(a1, a2, seq)
    wit = dict(kind='bi', a1=[list(x) if x[1] is None else [x[0], list(x[1])] for x in a1],
               a2=[list(x) if x[1] is None else [x[0], list(x[1])] for x in a2],
               seq=[list(e) for e in seq], pair=None)
    try:
        q = Read(text)
        got = 'rule'
    except RINGReaderError:
        got = 'RINGReaderError'
    except Exception as e:     # noqa
        got = 'EXC:' + type(e).__name__
    R.nontrivial += 1
    sig = ','.join(sorted(set(e[0] for e in seq)))
    if not balanced:
        R.outcomes['bi:unbalanced:' + got] += 1
        if got != 'RINGReaderError':
            R.violation('bi-read:unbalanced-%s:%s' % (got, sig), '%r is unbalanced; Read gave %s'
                        % (text, got), wit)
        return
    R.outcomes['bi:balanced:' + got] += 1
    if got != 'rule':
        R.violation('bi-read:balanced-%s:%s' % (got, sig), '%r is balanced; Read gave %s'
                    % (text, got), wit)
        return
    f1 = ringref.parse_fragment(ruleref.fragment_text(a1))
    f2 = ringref.parse_fragment(ruleref.fragment_text(a2))
    for s1 in BI_MOLS:
        for s2 in BI_MOLS:
            if only_pair is not None and [s1, s2] != only_pair:
                continue
            m1, m2 = Chem.MolFromSmiles(s1), Chem.MolFromSmiles(s2)
            h1, h2 = Chem.AddHs(m1), Chem.AddHs(m2)
            comb = Chem.CombineMols(h1, h2)
            off = h1.GetNumAtoms()
            exp = []
            for x in ringref.ref_matches_g(f1, ringref.G(h1)):
                for y in ringref.ref_matches_g(f2, ringref.G(h2)):
                    exp.append(ruleref.apply_edits(comb, list(x) + [v + off for v in y], seq))
            exp.sort()
            R.evals += 1
            if exp:
                R.nontrivial += 1
            try:
                res = q.RunReactants((Chem.Mol(m1), Chem.Mol(m2)))
                gotp = sorted(ruleref.product_key(ps) for ps in res)
            except Exception as e:      # noqa
                gotp = 'EXC:%s' % type(e).__name__
            if gotp == exp:
                R.outcomes['bi-run:same:%s' % ('products' if exp else 'no-match')] += 1
                if exp:
                    R.sample(dict(rule=text, molecules=[s1, s2], product_sets=exp[:1]), limit=1)
                continue
            R.outcomes['bi-run:differs'] += 1
            R.violation('bi-run:%s:%s' % ('EXC' if isinstance(gotp, str) else 'products', sig),
                        '%r on (%s, %s): reference %r; implementation %r' % (
                            text, s1, s2, exp[:2], gotp if isinstance(gotp, str) else gotp[:2]),
                        dict(wit, pair=[s1, s2]))


# ------------------------------------------------- several reactants (wave 3)
#
# Three further families over rules with several reactants (domains/w3_c16.py).
# The reference for all of them: the i-th molecule belongs to the i-th DECLARED
# reactant; one product set per element of the cartesian product of the
# reference matches; atoms of reactant i sit behind all atoms of reactants
# 0..i-1 in the combined molecule.
#   names : the 3 x 3 two-reactant patterns x every ordered pair of distinct
#           reactant names
#   bi2   : two-reactant rules with second reactants of 2-3 atoms and the full
#           edit alphabet (modify bond, break/form <kind>, radical := n,
#           increase order) on the labels of either reactant
#   tri   : rules with three reactants

def judge_multi(R, fam, pats, names, seq, mol_alphabet, only=None, unbalanced_maxlen=None):
    from rdkit import Chem
    from pgradd.RINGParser import Read
    from pgradd.Error import RINGReaderError
    atoms = W3.combined(pats)
    status, balanced = ruleref.analyse(atoms, seq)
    R.evals += 1
    if status != 'judged':
        # ill-defined sequences and documented refusals: not judged here
        R.outcomes[fam + ':unjudged'] += 1
        return
    if not balanced and unbalanced_maxlen is not None and len(seq) > unbalanced_maxlen:
        R.outcomes[fam + ':outside-bound(long unbalanced)'] += 1
        return
    text = W3.multi_text(pats, names, seq)
    wit = dict(kind='multi', fam=fam, pats=[W3.enc_pat(p) for p in pats], names=list(names),
               seq=[list(e) for e in seq], mols=None)
    try:
        q = Read(text)
        got = 'rule'
    except RINGReaderError:
        got = 'RINGReaderError'
    except Exception as e:     # noqa
        got = 'EXC:' + type(e).__name__
    R.nontrivial += 1
    sig = ','.join(sorted(set(e[0] for e in seq)))
    if fam == 'tri':
        sig = 'any'       # one key per kind of difference
    if not balanced:
        R.outcomes[fam + ':unbalanced:' + got] += 1
        if got != 'RINGReaderError':
            R.violation('%s-read:unbalanced-%s:%s' % (fam, got, sig),
                        '%r is unbalanced; Read gave %s' % (text, got), wit)
        return
    R.outcomes[fam + ':balanced:' + got] += 1
    if got != 'rule':
        R.violation('%s-read:balanced-%s:%s' % (fam, got, sig),
                    '%r is balanced; Read gave %s' % (text, got), wit)
        return
    frs = [ringref.parse_fragment(ruleref.fragment_text(p)) for p in pats]
    for smis in itertools.product(mol_alphabet, repeat=len(pats)):
        if only is not None and list(smis) != list(only):
            continue
        ms = [Chem.MolFromSmiles(s) for s in smis]
        hs = [Chem.AddHs(m) for m in ms]
        comb, offs = hs[0], [0]
        for h in hs[1:]:
            offs.append(comb.GetNumAtoms())
            comb = Chem.CombineMols(comb, h)
        per = [ringref.ref_matches_g(f, ringref.G(h)) for f, h in zip(frs, hs)]
        exp = []
        for combo in itertools.product(*per):
            idx = []
            for mt, off in zip(combo, offs):
                idx += [v + off for v in mt]
            exp.append(ruleref.apply_edits(comb, idx, seq))
        exp.sort()
        R.evals += 1
        if exp:
            R.nontrivial += 1
        want_el = ruleref.element_counts(hs)
        cons = untouched = True
        try:
            args = tuple(Chem.Mol(m) for m in ms)
            before = [(a.GetNumAtoms(), Chem.MolToSmiles(a)) for a in args]
            res = q.RunReactants(args)
            untouched = before == [(a.GetNumAtoms(), Chem.MolToSmiles(a)) for a in args]
            gotp = sorted(ruleref.product_key(ps) for ps in res)
            cons = all(ruleref.element_counts(ps) == want_el for ps in res)
        except Exception as e:      # noqa
            gotp = 'EXC:%s' % type(e).__name__
        w2 = dict(wit, mols=list(smis))
        if not untouched:
            R.violation('%s-run:callers-molecule-modified:%s' % (fam, sig),
                        '%r on %r: a molecule object passed in was modified' % (text, smis), w2)
        if gotp == exp and cons:
            R.outcomes['%s-run:same:%s' % (fam, 'products' if exp else 'no-match')] += 1
            if exp and list(names) != sorted(names):
                R.sample(dict(rule=text, molecules=list(smis), product_sets=exp[:1]), limit=1)
            continue
        if not cons:
            R.violation('%s-run:atoms-not-conserved:%s' % (fam, sig),
                        '%r on %r: a product set does not conserve the atoms' % (text, smis), w2)
        cls = gotp if isinstance(gotp, str) else (
            'count' if len(gotp) != len(exp) else 'products')
        R.outcomes['%s-run:differs:%s' % (fam, cls)] += 1
        R.violation('%s-run:%s:%s' % (fam, cls, sig),
                    '%r on %r: reference (%s matches) %r; implementation %r' % (
                        text, smis, ' x '.join(str(len(p)) for p in per), exp[:2],
                        gotp if isinstance(gotp, str) else gotp[:2]), w2)


# ------------------------------------- declared radical counts (wave 4)
#
# domains/w4_c16.py: pattern atoms that declare their radical count by a
# suffix or by a `has <op> n radical electrons` constraint.  Judged by the same
# bookkeeping (run on the bookkeeping-equivalent plain pattern); in addition
#   - `radical := n` on an atom whose pattern admits several radical counts
#     cannot be balanced for every match -> the rule must be rejected;
#   - a match on which a radical decrease meets an atom without radical
#     electrons cannot be given a product set -> RunReactants must raise.

_RAD_PREP = {}


def rad_prepared(pats, mol_alphabet):
    """what does not depend on the edit sequence, per tuple of molecules: the
    molecules, their hydrogen-explicit copies, the disjoint union and the
    reference matches as atom indices of the union (kept for the pattern
    last used only)"""
    from rdkit import Chem
    key = (repr(pats), tuple(mol_alphabet))
    if key in _RAD_PREP:
        return _RAD_PREP[key]
    frs = [ringref.parse_fragment(W4.fragment_text(p)) for p in pats]
    out = []
    for smis in itertools.product(mol_alphabet, repeat=len(pats)):
        ms = [Chem.MolFromSmiles(s) for s in smis]
        hs = [Chem.AddHs(m) for m in ms]
        comb, offs = hs[0], [0]
        for h in hs[1:]:
            offs.append(comb.GetNumAtoms())
            comb = Chem.CombineMols(comb, h)
        per = [ringref.ref_matches_g(f, ringref.G(h)) for f, h in zip(frs, hs)]
        idxs = []
        for combo in itertools.product(*per):
            idx = []
            for mt, off in zip(combo, offs):
                idx += [v + off for v in mt]
            idxs.append(idx)
        out.append((smis, ms, hs, comb, per, idxs))
    _RAD_PREP.clear()
    _RAD_PREP[key] = out
    return out


def judge_rad(R, fam, pats, seq, mol_alphabet, only=None, unbalanced_maxlen=None):
    from rdkit import Chem
    from pgradd.RINGParser import Read
    from pgradd.Error import RINGReaderError
    atoms = W4.combined(pats)
    status, balanced = W4.analyse(atoms, seq)
    R.evals += 1
    if status != 'judged':
        R.outcomes[fam + ':unjudged'] += 1
        return
    if not balanced and unbalanced_maxlen is not None and len(seq) > unbalanced_maxlen:
        R.outcomes[fam + ':outside-bound(long unbalanced)'] += 1
        return
    text = W4.rule_text(pats, seq)
    wit = dict(kind='rad', fam=fam, pats=[W4.enc_pat(p) for p in pats],
               seq=[list(e) for e in seq], mols=None)
    try:
        q = Read(text)
        got = 'rule'
    except RINGReaderError:
        got = 'RINGReaderError'
    except Exception as e:     # noqa
        got = 'EXC:' + type(e).__name__
    R.nontrivial += 1
    sig = ','.join(sorted(set(e[0] for e in seq)))
    know = '+'.join(sorted(set(W4.knowledge(sp, cs)[0] for sp, _, cs in atoms)))
    if not balanced:
        R.outcomes['%s:unbalanced(%s):%s' % (fam, know, got)] += 1
        if got != 'RINGReaderError':
            R.violation('%s-read:unbalanced-%s:%s' % (fam, got, sig),
                        '%r cannot be electron balanced on every atom its pattern '
                        'admits; Read gave %s' % (text, got), wit)
        return
    R.outcomes['%s:balanced(%s):%s' % (fam, know, got)] += 1
    if got != 'rule':
        R.violation('%s-read:balanced-%s:%s' % (fam, got, sig),
                    '%r is balanced; Read gave %s' % (text, got), wit)
        return
    for smis, ms, hs, comb, per, idxs in rad_prepared(pats, mol_alphabet):
        if only is not None and list(smis) != list(only):
            continue
        refuse = any(W4.inapplicable(comb, idx, seq) for idx in idxs)
        exp = None if refuse else sorted(ruleref.apply_edits(comb, idx, seq) for idx in idxs)
        R.evals += 1
        if idxs:
            R.nontrivial += 1
        want_el = ruleref.element_counts(hs)
        cons = untouched = True
        try:
            args = tuple(Chem.Mol(m) for m in ms)
            before = [(a.GetNumAtoms(), Chem.MolToSmiles(a)) for a in args]
            res = q.RunReactants(args if len(args) > 1 else args[0])
            untouched = before == [(a.GetNumAtoms(), Chem.MolToSmiles(a)) for a in args]
            gotp = sorted(ruleref.product_key(ps) for ps in res)
            cons = all(ruleref.element_counts(ps) == want_el for ps in res)
        except Exception as e:      # noqa
            gotp = 'EXC:%s' % type(e).__name__
        w2 = dict(wit, mols=list(smis))
        if not untouched:
            R.violation('%s-run:callers-molecule-modified:%s' % (fam, sig),
                        '%r on %r: a molecule object passed in was modified' % (text, smis), w2)
        if refuse:
            # some match cannot take the edit: no product set may be returned
            if isinstance(gotp, str):
                R.outcomes['%s-run:inapplicable:refused(%s)' % (fam, gotp[4:])] += 1
                continue
            R.outcomes['%s-run:inapplicable:returned' % fam] += 1
            R.violation('%s-run:inapplicable-edit-returned:%s' % (fam, sig),
                        '%r on %r: on at least one of the %d matches a radical decrease '
                        'meets an atom without radical electrons, so no product set can '
                        'carry exactly the declared edits; RunReactants returned %r '
                        'instead of raising' % (text, smis, len(idxs), gotp[:2]), w2)
            continue
        if gotp == exp and cons:
            R.outcomes['%s-run:same:%s' % (fam, 'products' if exp else 'no-match')] += 1
            if exp and 'agnostic' in know:
                R.sample(dict(rule=text, molecules=list(smis), product_sets=exp[:1]), limit=1)
            continue
        if not cons:
            R.violation('%s-run:atoms-not-conserved:%s' % (fam, sig),
                        '%r on %r: a product set does not conserve the atoms' % (text, smis), w2)
        cls = gotp if isinstance(gotp, str) else (
            'count' if len(gotp) != len(exp) else 'products')
        R.outcomes['%s-run:differs:%s' % (fam, cls)] += 1
        R.violation('%s-run:%s:%s' % (fam, cls, sig),
                    '%r on %r: reference (%s matches) %r; implementation %r' % (
                        text, smis, ' x '.join(str(len(p)) for p in per), exp[:2],
                        gotp if isinstance(gotp, str) else gotp[:2]), w2)


def run_rad_shard(R, shard, tier):
    fam = shard[0]
    for pats, E, mols in W4.rad_cases(shard, tier):
        for seq in W4.seqs_upto(E, 3):
            judge_rad(R, fam, pats, seq, mols, unbalanced_maxlen=W4.UNBALANCED_MAXLEN
                      if fam != 'rad1' else None)


# ------------------------------------------- repeated labels (wave 5)
#
# domains/w5_c16.py: several pattern atoms under one label, edits that name
# the label.  Judged under every reading (one carrier per label); see the
# module docstring there.

def rep_patterns(shard, tier):
    """-> list of (atoms, labs) of the shard"""
    out = []
    if shard[1] == 'two':
        for atoms in patterns(tier):
            if len(atoms) == 2:
                out.append((atoms, ['a0', 'a0']))
        return out
    for atoms in W5.rep3_structures(tier)[shard[2]]:
        for labs in W5.labellings(atoms):
            out.append((atoms, labs))
    return out


def rep_shards(tier):
    return [('rep', 'two', 0)] + [('rep', 'tree', i)
                                  for i in range(len(W5.rep3_structures(tier)))]


def judge_rep(R, atoms, labs, seq, tier, mols=None):
    from rdkit import Chem
    from pgradd.RINGParser import Read
    from pgradd.Error import RINGReaderError
    rhos = W5.readings(labs)
    R.evals += 1
    seqs = [W5.resolve(seq, rho) for rho in rhos]
    verdicts = [ruleref.analyse(atoms, s) for s in seqs]
    if any(st != 'judged' for st, _ in verdicts):
        R.outcomes['rep:unjudged(ill defined or refusal under some reading)'] += 1
        return
    if len(set(b for _, b in verdicts)) > 1:
        R.outcomes['rep:unjudged(readings disagree on the balance)'] += 1
        return
    balanced = verdicts[0][1]
    text = W5.rule_text(atoms, labs, seq)
    wit = dict(kind='rep', atoms=[list(a) if a[1] is None else [a[0], list(a[1])]
                                  for a in atoms], labs=list(labs),
               seq=[list(e) for e in seq], tier=tier, smiles=None)
    try:
        q = Read(text)
        got = 'rule'
    except RINGReaderError:
        got = 'RINGReaderError'
    except Exception as e:      # noqa
        got = 'EXC:' + type(e).__name__
    R.nontrivial += 1
    sig = ','.join(sorted(set(e[0] for e in seq)))
    if not balanced:
        R.outcomes['rep:unbalanced(every reading):' + got] += 1
        if got != 'RINGReaderError':
            R.violation('rep-read:unbalanced-%s:%s' % (
                'accepted' if got == 'rule' else got, sig),
                '%r leaves an atom\'s electrons unbalanced whichever atom a repeated '
                'label names; Read gave %s' % (text, got), wit)
        return
    R.outcomes['rep:balanced(every reading):' + got] += 1
    if got != 'rule':
        R.violation('rep-read:balanced-%s:%s' % (got, sig),
                    '%r is balanced whichever atom a repeated label names; Read gave %s'
                    % (text, got), wit)
        return
    fr = ringref.parse_fragment(ruleref.fragment_text(atoms))
    alive = list(range(len(rhos)))
    for smi, m, mh, g in (mols or molset(tier)):
        matches = ringref.ref_matches_g(fr, g)
        exps = []
        for s in seqs:
            if any(W4.inapplicable(mh, mt, s) for mt in matches):
                exps.append(None)
            else:
                exps.append(sorted(ruleref.apply_edits(mh, mt, s) for mt in matches))
        R.evals += 1
        if matches:
            R.nontrivial += 1
        cons = True
        try:
            arg = Chem.Mol(m)
            before = (arg.GetNumAtoms(), Chem.MolToSmiles(arg))
            res = q.RunReactants(arg)
            if (arg.GetNumAtoms(), Chem.MolToSmiles(arg)) != before:
                R.violation('rep-run:callers-molecule-modified:' + sig,
                            '%r on %s: the molecule object passed in was modified' % (text, smi),
                            dict(wit, smiles=smi))
            gotp = sorted(ruleref.product_key(ps) for ps in res)
            cons = all(ruleref.element_counts(ps) == ruleref.element_counts([mh])
                       for ps in res)
        except Exception as e:     # noqa
            gotp = 'EXC:%s' % type(e).__name__
        if not cons:
            R.violation('rep-run:atoms-not-conserved:' + sig,
                        '%r on %s: a product set does not conserve the atoms'
                        % (text, smi), dict(wit, smiles=smi))
        ok = [r for r in alive if (isinstance(gotp, str) if exps[r] is None
                                   else gotp == exps[r])]
        if ok:
            alive = ok
            R.outcomes['rep-run:same:%s' % ('products' if matches else 'no-match')] += 1
            if matches and len(set(map(repr, exps))) > 1:
                R.sample(dict(rule=text, molecule=smi, reading=list(rhos[alive[0]]),
                              product_sets=(exps[alive[0]] or [])[:1]), limit=2)
            continue
        exp0 = exps[alive[0]]
        cls = gotp if isinstance(gotp, str) else (
            'inapplicable-edit-returned' if exp0 is None else
            'count' if len(gotp) != len(exp0) else 'products')
        R.outcomes['rep-run:differs:' + cls] += 1
        R.violation('rep-run:%s:%s' % (cls, sig),
                    '%r on %s: %d reference matches; under no reading of the repeated '
                    'label that fits the molecules before (readings left: %r) do the '
                    'product sets equal the reference %r; implementation -> %r'
                    % (text, smi, len(matches), [list(rhos[r]) for r in alive],
                       [None if exps[r] is None else exps[r][:2] for r in alive],
                       gotp if isinstance(gotp, str) else gotp[:3]),
                    dict(wit, smiles=smi))
        return


def run_rep_shard(R, shard, tier):
    for atoms, labs in rep_patterns(shard, tier):
        for seq in W5.rep_sequences(atoms, labs, tier):
            judge_rep(R, atoms, labs, seq, tier)


def multi_cases(shard, tier):
    """-> (fam, molecule alphabet, longest unbalanced sequence that is read,
    reactant patterns, name tuples, edit sequences); the cases of the shard
    are sequences x name tuples"""
    fam = shard[0]
    if fam == 'names':
        pats = [R1S[shard[1]], R2S[shard[2]]]
        # ('r1', 'r2') is the wave-2 family itself
        nts = [nt for nt in W3.name_tuples(tier) if nt != ('r1', 'r2')]
        return (fam, W3.NAME_MOLS[tier], W3.NAME_UNBALANCED_MAXLEN, pats, nts,
                bi_sequences(W3.combined(pats)))
    if fam == 'bi2':
        pats = [W3.M_R1[shard[1]], W3.M_R2[shard[2]]]
        atoms = W3.combined(pats)
        return (fam, W3.M_MOLS, None, pats, [('r1', 'r2')],
                W3.m_sequences(atoms, edit_alphabet(atoms, True), tier))
    if fam == 'tri':
        pats = [W3.T_R1[shard[1]], W3.T_R2[shard[2]], W3.T_R3[shard[3]]]
        return (fam, W3.T_MOLS, W3.NAME_UNBALANCED_MAXLEN, pats,
                list(itertools.permutations(W3.T_NAMES)),
                W3.seqs_upto(W3.basic_edits(W3.combined(pats)), 3))
    raise ValueError(shard)


def shards(tier, seed):
    out = [('pat', i) for i in range(len(patterns(tier)))]
    for i in range(len(R1S)):
        for j in range(len(R2S)):
            out.append(('bi', i, j))
    for i in range(len(R1S)):
        for j in range(len(R2S)):
            out.append(('names', i, j))
    for i in range(len(W3.M_R1)):
        for j in range(len(W3.M_R2)):
            out.append(('bi2', i, j))
    for i, j, k in itertools.product(range(len(W3.T_R1)), range(len(W3.T_R2)),
                                     range(len(W3.T_R3))):
        out.append(('tri', i, j, k))
    out += W4.rad_shards(tier)
    out += rep_shards(tier)
    return out


def run_shard(shard, tier):
    R = Result()
    if shard[0] == 'rep':
        run_rep_shard(R, shard, tier)
        return R
    if shard[0] in ('rad1', 'rad2', 'radb'):
        run_rad_shard(R, shard, tier)
        return R
    if shard[0] in ('names', 'bi2', 'tri'):
        fam, mols, umax, pats, name_tuples, seqs = multi_cases(shard, tier)
        atoms = W3.combined(pats)
        for seq in seqs:
            # what does not depend on the names is decided (and counted) once
            status, balanced = ruleref.analyse(atoms, seq)
            if status != 'judged':
                R.evals += 1
                R.outcomes[fam + ':unjudged'] += 1
                continue
            if not balanced and umax is not None and len(seq) > umax:
                R.evals += 1
                R.outcomes[fam + ':outside-bound(long unbalanced)'] += 1
                continue
            for nt in name_tuples:
                judge_multi(R, fam, pats, nt, seq, mols, unbalanced_maxlen=umax)
        return R
    if shard[0] == 'bi':
        a1, a2 = R1S[shard[1]], R2S[shard[2]]
        n1 = len(a1)
        atoms = list(a1) + [(sp, None if b is None else (b[0], b[1] + n1)) for sp, b in a2]
        for seq in bi_sequences(atoms):
            judge_bi(R, a1, a2, seq)
        return R
    atoms = patterns(tier)[shard[1]]
    for seq in sequences(atoms, tier):
        judge_rule(R, atoms, seq, tier)
    if not R.samples:
        R.sample(dict(rule=ruleref.rule_text(atoms, [('radinc', 0)])))
    return R


def replay(w):
    from rdkit import Chem
    R = Result()
    if w['kind'] == 'rep':
        # the whole molecule set is run again: the readings that fit are
        # intersected over the molecules (witness['smiles'] = where it emptied)
        atoms = [(a[0], None if a[1] is None else (a[1][0], a[1][1])) for a in w['atoms']]
        judge_rep(R, atoms, list(w['labs']), [tuple(e) for e in w['seq']], w.get('tier') or 'quick')
        return dict(violates=bool(R.violations),
                    detail='\n'.join(v['msg'] for v in R.violations) or 'holds')
    if w['kind'] == 'rad':
        fam = w['fam']
        judge_rad(R, fam, [W4.dec_pat(p) for p in w['pats']], [tuple(e) for e in w['seq']],
                  W4.RADB_MOLS['thorough'] if fam == 'radb' else W4.RAD_MOLS['thorough'], only=w.get('mols') or None)
        return dict(violates=bool(R.violations),
                    detail='\n'.join(v['msg'] for v in R.violations) or 'holds')
    if w['kind'] == 'multi':
        fam = w['fam']
        judge_multi(R, fam, [W3.dec_pat(p) for p in w['pats']], tuple(w['names']),
                    [tuple(e) for e in w['seq']],
                    W3.NAME_MOLS['thorough'] if fam == 'names' else
                    W3.M_MOLS if fam == 'bi2' else W3.T_MOLS, only=w.get('mols') or None)
        return dict(violates=bool(R.violations),
                    detail='\n'.join(v['msg'] for v in R.violations) or 'holds')
    if w['kind'] == 'bi':
        conv = lambda L: [(a[0], None if a[1] is None else (a[1][0], a[1][1])) for a in L]   # noqa
        judge_bi(R, conv(w['a1']), conv(w['a2']), [tuple(e) for e in w['seq']], w.get('pair'))
        return dict(violates=bool(R.violations),
                    detail='\n'.join(v['msg'] for v in R.violations) or 'holds')
    atoms = [(a[0], None if a[1] is None else (a[1][0], a[1][1])) for a in w['atoms']]
    seq = [tuple(e) for e in w['seq']]
    mols = None
    if w.get('smiles'):
        m = W4.mol_from(w['smiles'])
        mh = Chem.AddHs(m)
        mols = [(w['smiles'], m, mh, ringref.G(mh))]
    judge_rule(R, atoms, seq, 'quick', mols)
    return dict(violates=bool(R.violations),
                detail='\n'.join(v['msg'] for v in R.violations) or 'holds')
