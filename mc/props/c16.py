"""C16 - a RING reaction rule applies exactly its declared edit per match.

Space  : reactant patterns with 1-3 atoms over {C, C?, C., H, O?} and bonds
         {single, double} x every edit sequence up to the stated length over
         {break, break <kind>, form, form <kind>, increase order, decrease
         order, radical +1, radical -1, radical := n, modify bond} applied to
         every labelled atom / pair x a molecule set.
Oracle : models/ruleref.py - own electron bookkeeping decides
         balanced/unbalanced; own edit applier on a copy of the molecule gives
         the expected product set per ringref match.
"""
import itertools

from ..runner import Result
from ..models import ringref, ruleref
from ..domains import molecules as MD

LEVEL = 'exploration'
ATOMS5 = ['C', 'C?', 'C.', 'H', 'O?']
ATOMS3 = ['C?', 'C.', 'H']
EXTRA_MOLS = ['CCC', 'C=CC', '[CH2]C[CH2]', 'C1CC1', 'CCO', '[H][H]', '[H]',
              'C#CC', '[CH2]C=C', 'OCC=O']
BOUND = {
    'quick': 'patterns: 5 one-atom, 50 two-atom, 108 three-atom chains; edit '
             'sequences: all of length <= 2 over the full edit alphabet, all of '
             'length 3 over the six basic edits; molecules M(2) C/O with '
             'radicals + 10',
    'thorough': 'as quick with length-3 sequences over the full alphabet for '
                '1-2 atom patterns, length 4 over the basic edits, triple bonds '
                'and 4-atom chains; molecules M(3) C/O with radicals + 10'}
RULE = ('every (pattern, edit sequence) is written as rule text and read; '
        'sequences that are well defined on the evolving pattern are judged: '
        'unbalanced => RINGReaderError, balanced => a rule; every rule that '
        'reads is run on every molecule and its product sets compared with the '
        'reference applier per reference match.  Non-trivial = a judged '
        'balanced rule, an unbalanced rule the reader must reject, or a run '
        'with at least one match')
ASSUMPTIONS = ['charge edits and atom-type edits are not judged (the balance '
               'clause speaks of bond and radical edits)',
               'radical := n is judged on atoms whose pattern fixes the radical '
               'count (no suffix or `.`) and whose count no earlier edit of the '
               'sequence changed',
               'sequences that are ill defined on the evolving pattern (break '
               'of a bond whose order was changed before, increase of a '
               'non-bond, ...) are enumerated but not judged',
               'documented refusals (break/modify of a bond of unspecified or '
               'mismatching kind) may be rejected or accepted',
               'canonical SMILES of unsanitised fragments identify products']
MANIFEST = dict(
    technique='bounded-exhaustive enumeration of rule programs x small '
              'molecules vs own electron bookkeeping and edit applier',
    text='All unimolecular rules built from 1-3 atom patterns and every edit '
         'sequence up to length 3 (4 in thorough) are read; balanced ones must '
         'be accepted and unbalanced ones rejected with RINGReaderError as '
         'decided by an independent per-atom electron count; every accepted '
         'rule is run on every small molecule and must give exactly one '
         'product set per reference match, equal (as a multiset of canonical '
         'SMILES) to the reference edit applier, conserving the atoms of every '
         'element.',
    note='Bimolecular rules, charge and atom-type edits are outside the bound.',
    ref='5/C16')


def patterns(tier):
    out = []
    for a in ATOMS5:
        out.append([(a, None)])
    kinds = ['single', 'double'] + (['triple'] if tier == 'thorough' else [])
    for a, b in itertools.product(ATOMS5, repeat=2):
        for k in kinds:
            out.append([(a, None), (b, (k, 0))])
    for a, b, c in itertools.product(ATOMS3, repeat=3):
        for k1, k2 in itertools.product(['single', 'double'], repeat=2):
            out.append([(a, None), (b, (k1, 0)), (c, (k2, 1))])
    if tier == 'thorough':
        for a, b, c, d in itertools.product(['C?', 'H'], repeat=4):
            out.append([(a, None), (b, ('single', 0)), (c, ('single', 1)),
                        (d, ('single', 2))])
    return out


def edit_alphabet(atoms, full):
    n = len(atoms)
    bonds, _ = ruleref.pattern_tables(atoms)
    E = []
    for i in range(n):
        E += [('radinc', i), ('raddec', i)]
        if full:
            E += [('radset', i, 0), ('radset', i, 1)]
    for i, j in itertools.combinations(range(n), 2):
        if (i, j) in bonds:
            E += [('break', i, j, None), ('inc', i, j), ('dec', i, j)]
            if full:
                E += [('break', i, j, 'single'), ('break', j, i, 'double'),
                      ('modify', i, j, 'single'), ('modify', i, j, 'double'),
                      ('modify', j, i, 'triple')]
        else:
            E += [('form', i, j, None)]
            if full:
                E += [('form', j, i, 'double')]
    return E


def sequences(atoms, tier):
    n = len(atoms)
    full = edit_alphabet(atoms, True)
    basic = edit_alphabet(atoms, False)
    seen = set()
    plan = [(1, full), (2, full)]
    if tier == 'quick':
        plan.append((3, basic))
    else:
        plan.append((3, full if n <= 2 else basic))
        if n <= 3:
            plan.append((4, basic))
    for L, E in plan:
        for seq in itertools.product(E, repeat=L):
            if seq not in seen:
                seen.add(seq)
                yield seq


_MOLS = {}


def molset(tier):
    if tier in _MOLS:
        return _MOLS[tier]
    from rdkit import Chem
    smis = MD.M(2 if tier == 'quick' else 3, ('C', 'O'), 2) + EXTRA_MOLS
    out = []
    for s in smis:
        m = Chem.MolFromSmiles(s)
        mh = Chem.AddHs(m)
        out.append((s, m, mh, ringref.G(mh)))
    _MOLS[tier] = out
    return out


def judge_rule(R, atoms, seq, tier, mols=None):
    from rdkit import Chem
    from pgradd.RINGParser import Read
    from pgradd.Error import RINGReaderError
    status, balanced = ruleref.analyse(atoms, seq)
    text = ruleref.rule_text(atoms, seq)
    R.evals += 1
    if status == 'open':
        R.outcomes['unjudged(ill-defined sequence)'] += 1
        return
    wit = dict(kind='rule', atoms=[list(a) if a[1] is None else [a[0], list(a[1])]
                                   for a in atoms], seq=[list(e) for e in seq],
               smiles=None)
    try:
        q = Read(text)
        got = 'rule'
    except RINGReaderError:
        got = 'RINGReaderError'
    except NotImplementedError:
        got = 'NotImplementedError'
    except Exception as e:      # noqa
        got = 'EXC:' + type(e).__name__
    sig = ','.join(sorted(set(e[0] for e in seq)))
    if status == 'refusal':
        R.outcomes['refusal-allowed:' + got] += 1
        if got.startswith('EXC') or (got == 'rule' and not balanced):
            R.violation('read:refusal-case-%s:%s' % (got, sig),
                        '%r: %s' % (text, got), wit)
        if got != 'rule' or not balanced:
            return
    elif not balanced:
        R.nontrivial += 1
        R.outcomes['unbalanced:' + got] += 1
        if got != 'RINGReaderError':
            R.violation('read:unbalanced-%s:%s' % (
                'accepted' if got == 'rule' else got, sig),
                '%r leaves an atom\'s electrons unbalanced; Read gave %s' % (
                    text, got), wit)
        return
    else:
        R.nontrivial += 1
        R.outcomes['balanced:' + got] += 1
        if got != 'rule':
            R.violation('read:balanced-%s:%s' % (got, sig),
                        '%r is balanced; Read gave %s' % (text, got), wit)
            return
    # run it
    fr = ringref.parse_fragment(ruleref.fragment_text(atoms))
    for smi, m, mh, g in (mols or molset(tier)):
        matches = ringref.ref_matches_g(fr, g)
        exp = sorted(ruleref.apply_edits(mh, mt, seq) for mt in matches)
        R.evals += 1
        if exp:
            R.nontrivial += 1
        try:
            res = q.RunReactants(Chem.Mol(m))
            gotp = sorted(ruleref.product_key(ps) for ps in res)
            cons = all(ruleref.element_counts(ps) == ruleref.element_counts([mh])
                       for ps in res)
        except Exception as e:     # noqa
            gotp = 'EXC:%s' % type(e).__name__
            cons = True
        if gotp == exp and cons:
            R.outcomes['run:same:%s' % ('products' if exp else 'no-match')] += 1
            if exp:
                R.sample(dict(rule=text, molecule=smi, product_sets=exp[:2]), limit=2)
            continue
        w2 = dict(wit, smiles=smi)
        if not cons:
            R.violation('run:atoms-not-conserved:' + sig,
                        '%r on %s: a product set does not conserve the atoms'
                        % (text, smi), w2)
        cls = gotp if isinstance(gotp, str) else (
            'count' if len(gotp) != len(exp) else 'products')
        R.outcomes['run:differs:' + cls] += 1
        R.violation('run:%s:%s' % (cls, sig),
                    '%r on %s: %d reference matches -> %r; implementation -> %r'
                    % (text, smi, len(matches), exp[:3],
                       gotp if isinstance(gotp, str) else gotp[:3]), w2)


def shards(tier, seed):
    return [('pat', i) for i in range(len(patterns(tier)))]


def run_shard(shard, tier):
    R = Result()
    atoms = patterns(tier)[shard[1]]
    for seq in sequences(atoms, tier):
        judge_rule(R, atoms, seq, tier)
    if not R.samples:
        R.sample(dict(rule=ruleref.rule_text(atoms, [('radinc', 0)])))
    return R


def replay(w):
    from rdkit import Chem
    R = Result()
    atoms = [(a[0], None if a[1] is None else (a[1][0], a[1][1])) for a in w['atoms']]
    seq = [tuple(e) for e in w['seq']]
    mols = None
    if w.get('smiles'):
        m = Chem.MolFromSmiles(w['smiles'])
        mh = Chem.AddHs(m)
        mols = [(w['smiles'], m, mh, ringref.G(mh))]
    judge_rule(R, atoms, seq, 'quick', mols)
    return dict(violates=bool(R.violations),
                detail='\n'.join(v['msg'] for v in R.violations) or 'holds')
