"""C04 - a mixture's descriptors are the sum of its components'.

All ordered pairs (self-pairs included) over each distinct scheme's molecule
domain, all triples over a 12-molecule sub-alphabet, undecomposable components
included.  Oracle: desc('A.B') == desc(A) + desc(B) key-wise; a failing
component makes the pair fail; estimates of the pair are the sums.

Estimates: every getter of the estimate object that returns a property of the
species (non-dimensional and dimensional, entropies / Gibbs energies absolute
and relative to the elements), (a) at three temperatures, evaluated right
after each estimate is made, for all ordered pairs over an 11-molecule
alphabet, and (b) at 298.15 K under every schedule of the six events "make
the estimate of A / B / A.B" and "evaluate the estimate of A / B / A.B" on ONE
library object (90 interleavings; an estimate is always made right after its
own decomposition), for all unordered pairs (self-pairs included) over 3
molecules per library.
"""
import itertools

from ..runner import Result
from ..domains import schemes as SD
from ..domains import molecules as MD
from ..domains import libs

LEVEL = 'exploration'
BOUND = {'quick': 'per distinct scheme file: all ordered pairs over M(2) C/O with '
                  'radicals + adsorbates + curated + undecomposable molecules '
                  'and 14 whole-molecule / hydrogen-only species (~115 molecules); all ordered triples over 12 molecules; '
                  'estimates for all pairs over 10 molecules x 9 libraries x 12 '
                  'getter presentations (Cp, H, S, G non-dimensional and in '
                  'units; S and G also with S_elements=True) x 3 '
                  'temperatures; all 90 interleavings of make / evaluate events '
                  'for A, B, A.B on one library object x all unordered pairs '
                  '(self-pairs included) over 3 molecules x 9 libraries; all '
                  'ordered pairs over 6 components of 20-24 heavy atoms',
         'thorough': 'the same over M(3) (~330 molecules per scheme); the '
                     'interleavings over all ordered pairs of 4 molecules per '
                     'library'}
RULE = ('every ordered pair / triple is written A.B(.C) and decomposed; '
        'non-trivial = both components decompose to non-empty dictionaries, or '
        'exactly one component is undecomposable (failure clause); an '
        'estimate schedule is one order of the events make(A), make(B), '
        'make(A.B), evaluate(A), evaluate(B), evaluate(A.B) with every make '
        'before its evaluate - make = GetDescriptors immediately followed by '
        'Estimate, evaluate = all 12 getter presentations at 298.15 K')
ASSUMPTIONS = ['pairs whose component already exceeds 5000 embeddings for a '
               'pattern are excluded (substructure search truncates at 10000); '
               'none occur in the domain',
               'component order in the SMILES is part of the enumerated space',
               'in the schedule family every estimate is made right after the '
               'decomposition of its own molecule (an estimate made from an '
               'older decomposition is the recorded finding K1 of C15 and is '
               'not re-judged here); the schedules of one library share one '
               'library object, a witness replays its own schedule on a fresh '
               'one',
               'standard errors (get_*_SE) are a quadratic form, not additive, '
               'and are not part of the getter alphabet']
MANIFEST = dict(
    technique='exhaustive enumeration of ordered molecule pairs and triples, '
              'additive differential oracle',
    text='For every ordered pair (and all triples over a sub-alphabet) of the '
         'enumerated molecule vocabulary of each shipped scheme, the '
         'descriptors of the dot-joined species must equal the key-wise sum of '
         'the components\' descriptors, a pair with an undecomposable '
         'component must fail, and every estimated property of the pair must '
         'equal the sum of the components\' properties - for every getter '
         '(absolute and relative to the elements, with and without units), '
         'whether the three estimates are evaluated as they are made or in '
         'any interleaving with the making of the others.',
    note='Locality is checked on small components; very large components '
         'only through the curated list.',
    ref='5/C04')

# species that a scheme treats as a whole (one centre pattern spans the
# molecule, hydrogen-only species, isotopic hydrogen kept as a graph atom) and
# small species with molecule-level pattern prefixes or same-named group /
# correction descriptors
WHOLE = ['[H][H]', '[H]', '[2H]C', 'O=C=O', '[C-]#[O+]', '[C]$[C]', 'O', '[OH]',
         'OO', 'C1=CC1', 'C1=CCC1', 'C=C=O', 'C#CO', 'OC=CO']

TRIPLE = ['C', 'CC', 'C=C', 'CO', 'C=O', 'C1CC1', 'CC(C)C', 'c1ccccc1', 'CCO',
          'C#C', 'CCl', 'O']
_IMPL = {}


def scheme(name):
    if name not in _IMPL:
        from pgradd.GroupAdd.Scheme import GroupAdditivityScheme
        _IMPL[name] = GroupAdditivityScheme.Load(SD.scheme_path(name))
    return _IMPL[name]


def desc(S, x):
    from pgradd.Error import PatternMatchError
    try:
        d = S.GetDescriptors(x)
        return ('ok', {str(k): float(v) for k, v in d.items()})
    except PatternMatchError:
        return ('PME',)
    except Exception as e:       # noqa
        return ('EXC', type(e).__name__)


def domain(name, tier):
    n = 2 if tier == 'quick' else 3
    gas = list(MD.M(n, ('C', 'O'), 2))
    out = WHOLE + gas + MD.CURATED_GAS[:30] + MD.OUTSIDE_VOCAB[:4]
    metal = SD.SURFACE.get(name)
    if metal:
        out += MD.adsorbates(MD.M(2, ('C', 'O'), 2), metal)[:20]
        out += (MD.CURATED_RU if metal == 'Ru' else MD.CURATED_SURFACE)[:10]
    seen, res = set(), []
    for s in out:
        c = MD.canon(s)
        if c and c not in seen:
            seen.add(c)
            res.append(s)
    return res


def addd(parts):
    tot = {}
    for p in parts:
        for k, v in p.items():
            tot[k] = tot.get(k, 0.0) + v
    return tot


def check(R, name, S, comps, single):
    text = '.'.join(comps)
    got = desc(S, text)
    parts = [single[c] for c in comps]
    R.evals += 1
    fails = [p for p in parts if p[0] != 'ok']
    if (not fails and all(p[1] for p in parts)) or (0 < len(fails) < len(parts)):
        R.nontrivial += 1
    wit = dict(kind='mix', scheme=name, comps=list(comps))
    if fails:
        if got[0] == 'ok':
            R.outcomes['failure-clause-broken'] += 1
            R.violation('undecomposable-component-accepted',
                        '[%s] %s decomposes to %r although %s cannot be decomposed'
                        % (name, text, got[1], [c for c, p in zip(comps, parts) if p[0] != 'ok']),
                        wit)
        else:
            R.outcomes['fails-with-component'] += 1
        return
    want = addd([p[1] for p in parts])
    if got[0] != 'ok':
        R.outcomes['spurious-failure'] += 1
        R.violation('spurious-%s' % got[0], '[%s] %s: components decompose but '
                    'the mixture gave %r' % (name, text, got), wit)
        return
    keys = set(want) | set(got[1])
    bad = sorted(k for k in keys if abs(want.get(k, 0) - got[1].get(k, 0)) > 1e-9)
    if bad:
        R.outcomes['not-additive'] += 1
        R.violation('not-additive', '[%s] %s: %r, sum of components %r' % (
            name, text, {k: got[1].get(k) for k in bad}, {k: want.get(k) for k in bad}),
            wit)
    else:
        R.outcomes['additive'] += 1
        if len(want) >= 3:
            R.sample(dict(scheme=name, mixture=text, descriptors=got[1]), limit=1)


def run_pairs(R, name, i, n, tier, only=None):
    S = scheme(name)
    dom = domain(name, tier)
    single = {s: desc(S, s) for s in dom}
    for a in (dom[i::n] if only is None else [only[0]]):
        for b in (dom if only is None else [only[1]]):
            check(R, name, S, (a, b), single)


BIG = ['C' * 20, 'C' * 21, 'C' * 22, 'CC(C)' + 'C' * 19, 'O' + 'C' * 23,
       'C1CCCCC1' + 'C' * 16]


def run_big(R, name):
    """Pairs of large components: each alone far below the substructure-search
    limit, the pair several times larger."""
    S = scheme(name)
    single = {s: desc(S, s) for s in BIG}
    for a in BIG:
        for b in BIG:
            check(R, name, S, (a, b), single)


def run_triples(R, name, only=None):
    S = scheme(name)
    single = {s: desc(S, s) for s in TRIPLE}
    for t in (itertools.product(TRIPLE, repeat=3) if only is None else [tuple(only)]):
        check(R, name, S, t, single)


EST = ['C', 'CC', 'CCO', 'CC(C)C', 'C1CCCCC1', 'c1ccccc1', 'C=CC', 'CC=O',
       'C([Pt])C[Pt]', 'OC([Pt])C[Pt]', 'C([Ru])C[Ru]']


# every getter of an estimate that returns a property of the species; the
# first four are evaluated exactly as before, the others add the switch
# "relative to the elements" and the getters that return numbers with units
# (standard errors are not additive: left out; the spellings of the switch
# are C07's alphabet)
GETTERS = [
    ('CpoR', lambda e, T: e.get_CpoR(T)),
    ('HoRT', lambda e, T: e.get_HoRT(T)),
    ('SoR', lambda e, T: e.get_SoR(T)),
    ('GoRT', lambda e, T: e.get_GoRT(T)),
    ('SoR S_elements=True', lambda e, T: e.get_SoR(T, S_elements=True)),
    ('GoRT S_elements=True', lambda e, T: e.get_GoRT(T, S_elements=True)),
    ('Cp J/mol/K', lambda e, T: e.get_Cp(T, 'J/mol/K')),
    ('H kJ/mol', lambda e, T: e.get_H(T, 'kJ/mol')),
    ('S J/mol/K', lambda e, T: e.get_S(T, 'J/mol/K')),
    ('G kJ/mol', lambda e, T: e.get_G(T, 'kJ/mol')),
    ('S J/mol/K S_elements=True',
     lambda e, T: e.get_S(T, 'J/mol/K', S_elements=True)),
    ('G kJ/mol S_elements=True',
     lambda e, T: e.get_G(T, 'kJ/mol', S_elements=True)),
]
TEMPS = (298.15, 500.0, 900.0)


def evaluate(e, temps=TEMPS):
    out = []
    for T in temps:
        for _label, f in GETTERS:
            try:
                out.append(float(f(e, T)))
            except Exception as ex:     # noqa
                out.append(type(ex).__name__)
    return out


def labels(temps=TEMPS):
    return ['%s @%g K' % (lab, T) for T in temps for lab, _f in GETTERS]


def summed(x, y):
    return [u + v if isinstance(u, float) and isinstance(v, float) else
            (u if isinstance(u, str) else v) for u, v in zip(x, y)]


def agree(got, want):
    """Indices at which the pair's values are not the sums (None: the pair
    has no values at all)."""
    if not isinstance(got, list):
        return None
    return [i for i, (u, v) in enumerate(zip(got, want)) if not (
        (u == v) if isinstance(v, str) else
        (isinstance(u, float) and abs(u - v) <= 1e-9 * max(1, abs(v))))]


def run_estimates(R, name, only=None):
    from pgradd.Error import PatternMatchError
    lib = libs.load(name)

    def est(smi):
        try:
            d = lib.GetDescriptors(smi)
            e = lib.Estimate(d, 'thermochem')
            return evaluate(e)
        except (PatternMatchError, Exception) as ex:    # noqa
            return type(ex).__name__
    single = {s: est(s) for s in EST}
    ok = [s for s in EST if isinstance(single[s], list)]
    lab = labels()
    for a in ok:
        for b in ok:
            if only is not None and [a, b] != only:
                continue
            R.evals += 1
            R.nontrivial += 1
            got = est(a + '.' + b)
            want = summed(single[a], single[b])
            bad = agree(got, want)
            same = bad == []
            R.outcomes['estimate:additive' if same else 'estimate:not-additive'] += 1
            if not same:
                shown = (bad or [0])[:4]
                R.violation('estimate-not-additive', '[%s] %s.%s: %r, sum %r' % (
                    name, a, b,
                    got if not isinstance(got, list) else
                    [(lab[i], got[i]) for i in shown],
                    [(lab[i], want[i]) for i in shown]),
                    dict(kind='est', scheme=name, comps=[a, b]))


# ---- schedules: the three estimates made and evaluated in every order on one
# library object.  An estimate is always made right after the decomposition of
# its own molecule; between its making and its evaluation the library may have
# decomposed / estimated the other two species.
SCHED = ['C', 'CC', 'CCO', 'CC=O', 'C([Ru])C[Ru]', 'C1CCCCC1']
EVENTS = ('bA', 'bB', 'bP', 'vA', 'vB', 'vP')      # b = make, v = evaluate
SCHEDULES = [p for p in itertools.permutations(EVENTS)
             if all(p.index('b' + k) < p.index('v' + k) for k in 'ABP')]
assert len(SCHEDULES) == 90
SCHED_T = (298.15,)


def sched_molecules(lib, tier):
    """The first 3 (thorough: 4) molecules of SCHED the library estimates."""
    out = []
    for s in SCHED:
        try:
            e = lib.Estimate(lib.GetDescriptors(s), 'thermochem')
            if all(isinstance(x, float) for x in evaluate(e, SCHED_T)):
                out.append(s)
        except Exception:   # noqa
            pass
    return out[:3 if tier == 'quick' else 4]


def sched_pairs(mols, tier):
    if tier == 'quick':
        return list(itertools.combinations_with_replacement(mols, 2))
    return list(itertools.product(mols, repeat=2))


def run_schedule(R, name, lib, a, b, sched):
    text = dict(A=a, B=b, P=a + '.' + b)
    made, val = {}, {}
    for ev in sched:
        k = ev[1]
        if ev[0] == 'b':
            try:
                made[k] = lib.Estimate(lib.GetDescriptors(text[k]), 'thermochem')
            except Exception as ex:     # noqa
                made[k] = type(ex).__name__
        else:
            val[k] = (made[k] if isinstance(made[k], str)
                      else evaluate(made[k], SCHED_T))
    R.evals += 1
    R.nontrivial += 1
    if isinstance(val['A'], str) or isinstance(val['B'], str):
        # both were estimated alone when the alphabet was chosen
        R.outcomes['schedule:component-estimate-fails'] += 1
        R.violation('schedule-component-fails', '[%s] schedule %s: the estimate '
                    'of %r / %r, possible alone, gave %r / %r' % (
                        name, ' '.join(sched), a, b, val['A'], val['B']),
                    dict(kind='sched', scheme=name, comps=[a, b],
                         schedule=list(sched)))
        return
    want = summed(val['A'], val['B'])
    bad = agree(val['P'], want)
    if bad == []:
        R.outcomes['schedule:additive'] += 1
        return
    R.outcomes['schedule:not-additive'] += 1
    lab = labels(SCHED_T)
    shown = (bad or [0])[:4]
    eager = all(sched.index('v' + k) == sched.index('b' + k) + 1 for k in 'ABP')
    R.violation('schedule-estimate-not-additive:%s' % (
        'evaluated-as-made' if eager else 'evaluated-later'),
        '[%s] estimates of A=%r, B=%r, P=A.B made (b) and evaluated (v) in the '
        'order %s: P gives %r, A + B give %r' % (
            name, a, b, ' '.join(sched),
            val['P'] if bad is None else [(lab[i], val['P'][i]) for i in shown],
            [(lab[i], want[i]) for i in shown]),
        dict(kind='sched', scheme=name, comps=[a, b], schedule=list(sched)))


def run_schedules(R, name, i, n, tier, only=None):
    lib = libs.load(name)
    if only is not None:
        run_schedule(R, name, lib, only[0][0], only[0][1], tuple(only[1]))
        return
    pairs = sched_pairs(sched_molecules(lib, tier), tier)
    R.extra['schedule_pairs'] += len(pairs[i::n])
    for a, b in pairs[i::n]:
        for sched in SCHEDULES:
            run_schedule(R, name, lib, a, b, sched)


def shards(tier, seed):
    out = []
    for name in SD.distinct_schemes():
        nch = 8 if tier == 'quick' else 32
        for i in range(nch):
            out.append(('pairs', name, i, nch))
        out.append(('triples', name))
        out.append(('big', name))
    for name in libs.LIBS:
        out.append(('estimates', name))
        nsch = 2 if tier == 'quick' else 4
        for i in range(nsch):
            out.append(('schedules', name, i, nsch))
    return out


def run_shard(shard, tier):
    R = Result()
    if shard[0] == 'pairs':
        run_pairs(R, shard[1], shard[2], shard[3], tier)
    elif shard[0] == 'triples':
        run_triples(R, shard[1])
    elif shard[0] == 'big':
        run_big(R, shard[1])
    elif shard[0] == 'schedules':
        run_schedules(R, shard[1], shard[2], shard[3], tier)
    else:
        run_estimates(R, shard[1])
    return R


def replay(w):
    R = Result()
    if w['kind'] == 'est':
        run_estimates(R, w['scheme'], only=w['comps'])
    elif w['kind'] == 'sched':
        # the whole history of the case: a fresh library object, one schedule
        run_schedules(R, w['scheme'], 0, 1, 'quick',
                      only=(w['comps'], w['schedule']))
    elif len(w['comps']) == 2:
        S = scheme(w['scheme'])
        single = {s: desc(S, s) for s in w['comps']}
        check(R, w['scheme'], S, tuple(w['comps']), single)
    else:
        run_triples(R, w['scheme'], only=w['comps'])
    return dict(violates=bool(R.violations),
                detail='\n'.join(v['msg'] for v in R.violations) or 'holds')
