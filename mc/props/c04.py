"""C04 - a mixture's descriptors are the sum of its components'.

All ordered pairs (self-pairs included) over each distinct scheme's molecule
domain, all triples over a 12-molecule sub-alphabet, undecomposable components
included.  Oracle: desc('A.B') == desc(A) + desc(B) key-wise; a failing
component makes the pair fail; estimates of the pair are the sums.

Estimates: every getter of the estimate object that returns a property of the
species (non-dimensional and dimensional, entropies / Gibbs energies absolute
and relative to the elements), (a) at three temperatures, evaluated right
after each estimate is made, for all ordered pairs over an 11-molecule
alphabet, and (b) at 298.15 K under every schedule of the six events "make
the estimate of A / B / A.B" and "evaluate the estimate of A / B / A.B" on ONE
library object (90 interleavings; an estimate is always made right after its
own decomposition), for all unordered pairs (self-pairs included) over 3
molecules per library.

Wave 5 adds (c) RINGS: 18 monocyclic components (3-, 5- and 6-rings, carbo-
and heterocycles, Kekule and aromatic spellings, pyridine as the
undecomposable one) written from every ring atom in both directions (79
distinct writings); every writing of every ring X with the first writing of
each of 10 partner rings Y, in both component orders (1480 pairs per distinct
scheme; thorough: 29 rings, every writing with every writing); and (d)
SPLIT: the events "decompose A / B / A.B" and "estimate A / B / A.B from its
decomposition and evaluate it" as SEPARATE events on one library object (90
interleavings; an estimate may now be made after other molecules were
decomposed, as a program that decomposes a batch first and estimates
afterwards does), for all unordered pairs (self-pairs included) over the
homologues CC, CCC, CCCC (same kinds of groups, different counts).
"""
import itertools

from ..runner import Result
from ..domains import schemes as SD
from ..domains import molecules as MD
from ..domains import libs
from ..domains import w5_c04 as W5

LEVEL = 'exploration'
BOUND = {'quick': 'per distinct scheme file: all ordered pairs over M(2) C/O with '
                  'radicals + adsorbates + curated + undecomposable molecules '
                  'and 14 whole-molecule / hydrogen-only species (~115 molecules); all ordered triples over 12 molecules; '
                  'estimates for all pairs over 10 molecules x 9 libraries x 12 '
                  'getter presentations (Cp, H, S, G non-dimensional and in '
                  'units; S and G also with S_elements=True) x 3 '
                  'temperatures; all 90 interleavings of make / evaluate events '
                  'for A, B, A.B on one library object x all unordered pairs '
                  '(self-pairs included) over 3 molecules x 9 libraries; all '
                  'ordered pairs over 6 components of 20-24 heavy atoms; '
                  'per distinct scheme 18 monocycles written from every ring '
                  'atom in both directions (79 writings): every writing x the '
                  'first writing of 10 partner rings, both component orders '
                  '(1480 pairs); all 90 interleavings of decompose / estimate '
                  'events for A, B, A.B on one library object x all unordered pairs '
                  '(self-pairs included) over 3 homologous alkanes x 9 '
                  'libraries',
         'thorough': 'the same over M(3) (~330 molecules per scheme); the '
                     'interleavings over all ordered pairs of 4 molecules per '
                     'library; 29 monocycles (3- to 7-rings), every writing x '
                     'every writing (17424 pairs per scheme); decompose / '
                     'estimate interleavings over all ordered pairs of 5 '
                     'molecules per library (two alkanols added), and all '
                     '1680 interleavings of decompose / estimate / evaluate '
                     'as three separate events per species over the '
                     'unordered pairs of CCC, CCCC'}
RULE = ('every ordered pair / triple is written A.B(.C) and decomposed; '
        'non-trivial = both components decompose to non-empty dictionaries, or '
        'exactly one component is undecomposable (failure clause); an '
        'estimate schedule is one order of the events make(A), make(B), '
        'make(A.B), evaluate(A), evaluate(B), evaluate(A.B) with every make '
        'before its evaluate - make = GetDescriptors immediately followed by '
        'Estimate, evaluate = all 12 getter presentations at 298.15 K; a '
        'ring writing = the SMILES of a monocycle that starts at one ring '
        'atom and walks one way round (textual duplicates by symmetry '
        'dropped); a split schedule is one order of decompose(A), '
        'decompose(B), decompose(A.B), estimate(A), estimate(B), '
        'estimate(A.B) with every decompose before its estimate - estimate = '
        'Estimate on the mapping its own decompose returned, evaluated at '
        'once (thorough also: evaluated as a third, later event)')
ASSUMPTIONS = ['pairs whose component already exceeds 5000 embeddings for a '
               'pattern are excluded (substructure search truncates at 10000); '
               'none occur in the domain',
               'component order in the SMILES is part of the enumerated space',
               'in the schedule family every estimate is made right after the '
               'decomposition of its own molecule (an estimate made from an '
               'older decomposition is the recorded finding K1 of C15 and is '
               'not re-judged here); the schedules of one library share one '
               'library object, a witness replays its own schedule on a fresh '
               'one',
               'standard errors (get_*_SE) are a quadratic form, not additive, '
               'and are not part of the getter alphabet',
               'split schedules: an estimate made while the last molecule the '
               'library object decomposed is not its own takes the elemental '
               'entropies of that other molecule (recorded finding K1 of C15): '
               'in a schedule that contains such an estimate the four '
               'S_elements=True presentations are evaluated but not judged, '
               'the other eight are; schedules without one are judged on all '
               '12.  Which estimates are of that kind is read off the schedule '
               'by the harness, not asked of the library',
               'the split schedules of one library share one library object; '
               'a violating schedule is re-run at once on a fresh object: if '
               'it violates there too the witness is that schedule alone, '
               'otherwise the witness is the whole sequence of schedules the '
               'shared object has gone through']
MANIFEST = dict(
    technique='exhaustive enumeration of ordered molecule pairs and triples, '
              'additive differential oracle',
    text='For every ordered pair (and all triples over a sub-alphabet) of the '
         'enumerated molecule vocabulary of each shipped scheme, the '
         'descriptors of the dot-joined species must equal the key-wise sum of '
         'the components\' descriptors, a pair with an undecomposable '
         'component must fail, and every estimated property of the pair must '
         'equal the sum of the components\' properties - for every getter '
         '(absolute and relative to the elements, with and without units), '
         'whether the three estimates are evaluated as they are made or in '
         'any interleaving with the making of the others, and whether each '
         'is made right after its own decomposition or after the other '
         'species were decomposed.  Ring components are written from every '
         'ring atom in both directions.',
    note='Locality is checked on small components; very large components '
         'only through the curated list.',
    ref='5/C04')

# species that a scheme treats as a whole (one centre pattern spans the
# molecule, hydrogen-only species, isotopic hydrogen kept as a graph atom) and
# small species with molecule-level pattern prefixes or same-named group /
# correction descriptors
WHOLE = ['[H][H]', '[H]', '[2H]C', 'O=C=O', '[C-]#[O+]', '[C]$[C]', 'O', '[OH]',
         'OO', 'C1=CC1', 'C1=CCC1', 'C=C=O', 'C#CO', 'OC=CO']

TRIPLE = ['C', 'CC', 'C=C', 'CO', 'C=O', 'C1CC1', 'CC(C)C', 'c1ccccc1', 'CCO',
          'C#C', 'CCl', 'O']
_IMPL = {}


def scheme(name):
    if name not in _IMPL:
        from pgradd.GroupAdd.Scheme import GroupAdditivityScheme
        _IMPL[name] = GroupAdditivityScheme.Load(SD.scheme_path(name))
    return _IMPL[name]


def desc(S, x):
    from pgradd.Error import PatternMatchError
    try:
        d = S.GetDescriptors(x)
        return ('ok', {str(k): float(v) for k, v in d.items()})
    except PatternMatchError:
        return ('PME',)
    except Exception as e:       # noqa
        return ('EXC', type(e).__name__)


def domain(name, tier):
    n = 2 if tier == 'quick' else 3
    gas = list(MD.M(n, ('C', 'O'), 2))
    out = WHOLE + gas + MD.CURATED_GAS[:30] + MD.OUTSIDE_VOCAB[:4]
    metal = SD.SURFACE.get(name)
    if metal:
        out += MD.adsorbates(MD.M(2, ('C', 'O'), 2), metal)[:20]
        out += (MD.CURATED_RU if metal == 'Ru' else MD.CURATED_SURFACE)[:10]
    seen, res = set(), []
    for s in out:
        c = MD.canon(s)
        if c and c not in seen:
            seen.add(c)
            res.append(s)
    return res


def addd(parts):
    tot = {}
    for p in parts:
        for k, v in p.items():
            tot[k] = tot.get(k, 0.0) + v
    return tot


def check(R, name, S, comps, single):
    text = '.'.join(comps)
    got = desc(S, text)
    parts = [single[c] for c in comps]
    R.evals += 1
    fails = [p for p in parts if p[0] != 'ok']
    if (not fails and all(p[1] for p in parts)) or (0 < len(fails) < len(parts)):
        R.nontrivial += 1
    wit = dict(kind='mix', scheme=name, comps=list(comps))
    if fails:
        if got[0] == 'ok':
            R.outcomes['failure-clause-broken'] += 1
            R.violation('undecomposable-component-accepted',
                        '[%s] %s decomposes to %r although %s cannot be decomposed'
                        % (name, text, got[1], [c for c, p in zip(comps, parts) if p[0] != 'ok']),
                        wit)
        else:
            R.outcomes['fails-with-component'] += 1
        return
    want = addd([p[1] for p in parts])
    if got[0] != 'ok':
        R.outcomes['spurious-failure'] += 1
        R.violation('spurious-%s' % got[0], '[%s] %s: components decompose but '
                    'the mixture gave %r' % (name, text, got), wit)
        return
    keys = set(want) | set(got[1])
    bad = sorted(k for k in keys if abs(want.get(k, 0) - got[1].get(k, 0)) > 1e-9)
    if bad:
        R.outcomes['not-additive'] += 1
        R.violation('not-additive', '[%s] %s: %r, sum of components %r' % (
            name, text, {k: got[1].get(k) for k in bad}, {k: want.get(k) for k in bad}),
            wit)
    else:
        R.outcomes['additive'] += 1
        if len(want) >= 3:
            R.sample(dict(scheme=name, mixture=text, descriptors=got[1]), limit=1)


def run_pairs(R, name, i, n, tier, only=None):
    S = scheme(name)
    dom = domain(name, tier)
    single = {s: desc(S, s) for s in dom}
    for a in (dom[i::n] if only is None else [only[0]]):
        for b in (dom if only is None else [only[1]]):
            check(R, name, S, (a, b), single)


BIG = ['C' * 20, 'C' * 21, 'C' * 22, 'CC(C)' + 'C' * 19, 'O' + 'C' * 23,
       'C1CCCCC1' + 'C' * 16]


def run_big(R, name):
    """Pairs of large components: each alone far below the substructure-search
    limit, the pair several times larger."""
    S = scheme(name)
    single = {s: desc(S, s) for s in BIG}
    for a in BIG:
        for b in BIG:
            check(R, name, S, (a, b), single)


def run_triples(R, name, only=None):
    S = scheme(name)
    single = {s: desc(S, s) for s in TRIPLE}
    for t in (itertools.product(TRIPLE, repeat=3) if only is None else [tuple(only)]):
        check(R, name, S, t, single)


EST = ['C', 'CC', 'CCO', 'CC(C)C', 'C1CCCCC1', 'c1ccccc1', 'C=CC', 'CC=O',
       'C([Pt])C[Pt]', 'OC([Pt])C[Pt]', 'C([Ru])C[Ru]']


# every getter of an estimate that returns a property of the species; the
# first four are evaluated exactly as before, the others add the switch
# "relative to the elements" and the getters that return numbers with units
# (standard errors are not additive: left out; the spellings of the switch
# are C07's alphabet)
GETTERS = [
    ('CpoR', lambda e, T: e.get_CpoR(T)),
    ('HoRT', lambda e, T: e.get_HoRT(T)),
    ('SoR', lambda e, T: e.get_SoR(T)),
    ('GoRT', lambda e, T: e.get_GoRT(T)),
    ('SoR S_elements=True', lambda e, T: e.get_SoR(T, S_elements=True)),
    ('GoRT S_elements=True', lambda e, T: e.get_GoRT(T, S_elements=True)),
    ('Cp J/mol/K', lambda e, T: e.get_Cp(T, 'J/mol/K')),
    ('H kJ/mol', lambda e, T: e.get_H(T, 'kJ/mol')),
    ('S J/mol/K', lambda e, T: e.get_S(T, 'J/mol/K')),
    ('G kJ/mol', lambda e, T: e.get_G(T, 'kJ/mol')),
    ('S J/mol/K S_elements=True',
     lambda e, T: e.get_S(T, 'J/mol/K', S_elements=True)),
    ('G kJ/mol S_elements=True',
     lambda e, T: e.get_G(T, 'kJ/mol', S_elements=True)),
]
TEMPS = (298.15, 500.0, 900.0)


def evaluate(e, temps=TEMPS):
    out = []
    for T in temps:
        for _label, f in GETTERS:
            try:
                out.append(float(f(e, T)))
            except Exception as ex:     # noqa
                out.append(type(ex).__name__)
    return out


def labels(temps=TEMPS):
    return ['%s @%g K' % (lab, T) for T in temps for lab, _f in GETTERS]


def summed(x, y):
    return [u + v if isinstance(u, float) and isinstance(v, float) else
            (u if isinstance(u, str) else v) for u, v in zip(x, y)]


def agree(got, want):
    """Indices at which the pair's values are not the sums (None: the pair
    has no values at all)."""
    if not isinstance(got, list):
        return None
    return [i for i, (u, v) in enumerate(zip(got, want)) if not (
        (u == v) if isinstance(v, str) else
        (isinstance(u, float) and abs(u - v) <= 1e-9 * max(1, abs(v))))]


def run_estimates(R, name, only=None):
    from pgradd.Error import PatternMatchError
    lib = libs.load(name)

    def est(smi):
        try:
            d = lib.GetDescriptors(smi)
            e = lib.Estimate(d, 'thermochem')
            return evaluate(e)
        except (PatternMatchError, Exception) as ex:    # noqa
            return type(ex).__name__
    single = {s: est(s) for s in EST}
    ok = [s for s in EST if isinstance(single[s], list)]
    lab = labels()
    for a in ok:
        for b in ok:
            if only is not None and [a, b] != only:
                continue
            R.evals += 1
            R.nontrivial += 1
            got = est(a + '.' + b)
            want = summed(single[a], single[b])
            bad = agree(got, want)
            same = bad == []
            R.outcomes['estimate:additive' if same else 'estimate:not-additive'] += 1
            if not same:
                shown = (bad or [0])[:4]
                R.violation('estimate-not-additive', '[%s] %s.%s: %r, sum %r' % (
                    name, a, b,
                    got if not isinstance(got, list) else
                    [(lab[i], got[i]) for i in shown],
                    [(lab[i], want[i]) for i in shown]),
                    dict(kind='est', scheme=name, comps=[a, b]))


# ---- schedules: the three estimates made and evaluated in every order on one
# library object.  An estimate is always made right after the decomposition of
# its own molecule; between its making and its evaluation the library may have
# decomposed / estimated the other two species.
SCHED = ['C', 'CC', 'CCO', 'CC=O', 'C([Ru])C[Ru]', 'C1CCCCC1']
EVENTS = ('bA', 'bB', 'bP', 'vA', 'vB', 'vP')      # b = make, v = evaluate
SCHEDULES = [p for p in itertools.permutations(EVENTS)
             if all(p.index('b' + k) < p.index('v' + k) for k in 'ABP')]
assert len(SCHEDULES) == 90
SCHED_T = (298.15,)


def sched_molecules(lib, tier):
    """The first 3 (thorough: 4) molecules of SCHED the library estimates."""
    out = []
    for s in SCHED:
        try:
            e = lib.Estimate(lib.GetDescriptors(s), 'thermochem')
            if all(isinstance(x, float) for x in evaluate(e, SCHED_T)):
                out.append(s)
        except Exception:   # noqa
            pass
    return out[:3 if tier == 'quick' else 4]


def sched_pairs(mols, tier):
    if tier == 'quick':
        return list(itertools.combinations_with_replacement(mols, 2))
    return list(itertools.product(mols, repeat=2))


def run_schedule(R, name, lib, a, b, sched):
    text = dict(A=a, B=b, P=a + '.' + b)
    made, val = {}, {}
    for ev in sched:
        k = ev[1]
        if ev[0] == 'b':
            try:
                made[k] = lib.Estimate(lib.GetDescriptors(text[k]), 'thermochem')
            except Exception as ex:     # noqa
                made[k] = type(ex).__name__
        else:
            val[k] = (made[k] if isinstance(made[k], str)
                      else evaluate(made[k], SCHED_T))
    R.evals += 1
    R.nontrivial += 1
    if isinstance(val['A'], str) or isinstance(val['B'], str):
        # both were estimated alone when the alphabet was chosen
        R.outcomes['schedule:component-estimate-fails'] += 1
        R.violation('schedule-component-fails', '[%s] schedule %s: the estimate '
                    'of %r / %r, possible alone, gave %r / %r' % (
                        name, ' '.join(sched), a, b, val['A'], val['B']),
                    dict(kind='sched', scheme=name, comps=[a, b],
                         schedule=list(sched)))
        return
    want = summed(val['A'], val['B'])
    bad = agree(val['P'], want)
    if bad == []:
        R.outcomes['schedule:additive'] += 1
        return
    R.outcomes['schedule:not-additive'] += 1
    lab = labels(SCHED_T)
    shown = (bad or [0])[:4]
    eager = all(sched.index('v' + k) == sched.index('b' + k) + 1 for k in 'ABP')
    R.violation('schedule-estimate-not-additive:%s' % (
        'evaluated-as-made' if eager else 'evaluated-later'),
        '[%s] estimates of A=%r, B=%r, P=A.B made (b) and evaluated (v) in the '
        'order %s: P gives %r, A + B give %r' % (
            name, a, b, ' '.join(sched),
            val['P'] if bad is None else [(lab[i], val['P'][i]) for i in shown],
            [(lab[i], want[i]) for i in shown]),
        dict(kind='sched', scheme=name, comps=[a, b], schedule=list(sched)))


def run_schedules(R, name, i, n, tier, only=None):
    lib = libs.load(name)
    if only is not None:
        run_schedule(R, name, lib, only[0][0], only[0][1], tuple(only[1]))
        return
    pairs = sched_pairs(sched_molecules(lib, tier), tier)
    R.extra['schedule_pairs'] += len(pairs[i::n])
    for a, b in pairs[i::n]:
        for sched in SCHEDULES:
            run_schedule(R, name, lib, a, b, sched)


# ---- wave 5 (c): ring components written from every ring atom ------------
def run_rings(R, name, i, n, tier):
    """Ordered pairs of ring writings (W5.ring_pairs); the oracle is check()
    unchanged: descriptors add up key-wise, an undecomposable ring (pyridine)
    makes the pair fail."""
    S = scheme(name)
    pairs = W5.ring_pairs(tier)
    mine = pairs[i::n]
    single = {}
    for a, b in mine:
        for w in (a, b):
            if w not in single:
                single[w] = desc(S, w)
    R.extra['ring_pairs'] += len(mine)
    for a, b in mine:
        check(R, name, S, (a, b), single)


# ---- wave 5 (d): decomposition and estimation as separate events ---------
S_ELEM = [i for i, (lab, _f) in enumerate(GETTERS) if 'S_elements' in lab]
assert len(S_ELEM) == 4


def split_molecules(lib, tier):
    """The first 3 (thorough: 5) molecules of W5.SPLIT the library estimates."""
    out = []
    for s in W5.SPLIT:
        try:
            e = lib.Estimate(lib.GetDescriptors(s), 'thermochem')
            if all(isinstance(x, float) for x in evaluate(e, SCHED_T)):
                out.append(s)
        except Exception:   # noqa
            pass
    return out[:3 if tier == 'quick' else 5]


def split_case(name, lib, a, b, sched):
    """One schedule on `lib`.  Events: dX decompose X, eX estimate X from the
    mapping dX returned, vX evaluate (when the schedule has no v events an
    estimate is evaluated as soon as it is made).  Returns None (additive) or
    (key, message)."""
    text = dict(A=a, B=b, P=a + '.' + b)
    separate = any(ev[0] == 'v' for ev in sched)
    dec, made, val, stale = {}, {}, {}, {}
    last = None     # the harness's own record of the last molecule decomposed
    for ev in sched:
        k = ev[1]
        if ev[0] == 'd':
            last = text[k]
            try:
                dec[k] = ('ok', lib.GetDescriptors(text[k]))
            except Exception as ex:     # noqa
                dec[k] = ('exc', type(ex).__name__)
        elif ev[0] == 'e':
            stale[k] = last != text[k]
            if dec[k][0] != 'ok':
                made[k] = dec[k][1]
            else:
                try:
                    made[k] = lib.Estimate(dec[k][1], 'thermochem')
                except Exception as ex:     # noqa
                    made[k] = type(ex).__name__
            if not separate:
                val[k] = (made[k] if isinstance(made[k], str)
                          else evaluate(made[k], SCHED_T))
        else:
            val[k] = (made[k] if isinstance(made[k], str)
                      else evaluate(made[k], SCHED_T))
    order = ' '.join(sched)
    if isinstance(val['A'], str) or isinstance(val['B'], str):
        return ('split-component-fails', '[%s] schedule %s: the estimate of '
                '%r / %r, possible alone, gave %r / %r' % (
                    name, order, a, b, val['A'], val['B']))
    want = summed(val['A'], val['B'])
    bad = agree(val['P'], want)
    any_stale = any(stale.values())
    if bad and any_stale:
        # K1 of C15: the elemental reference of an estimate made after
        # another molecule was decomposed is not judged here
        bad = [i for i in bad if i not in S_ELEM]
    if bad == []:
        return None
    lab = labels(SCHED_T)
    shown = (bad or [0])[:4]
    return ('split-estimate-not-additive:%s' % (
        'estimate-after-other-decompositions' if any_stale
        else 'estimate-right-after-own-decomposition'),
        '[%s] A=%r, B=%r, P=A.B decomposed (d) and estimated from that '
        'decomposition (e) %sin the order %s on one library object: P gives '
        '%r, A + B give %r' % (
            name, a, b, 'and evaluated (v) ' if separate else '', order,
            val['P'] if bad is None else [(lab[i], val['P'][i]) for i in shown],
            [(lab[i], want[i]) for i in shown]))


def split_plan(tier, mols):
    """[(a, b, schedule)] in enumeration order."""
    out = []
    if tier == 'quick':
        pairs = list(itertools.combinations_with_replacement(mols, 2))
    else:
        pairs = list(itertools.product(mols, repeat=2))
    for a, b in pairs:
        for sched in W5.SPLIT_SCHEDULES:
            out.append((a, b, sched))
    if tier != 'quick':
        s3 = W5.split_schedules3()
        for a, b in itertools.combinations_with_replacement(mols[1:3], 2):
            for sched in s3:
                out.append((a, b, sched))
    return out


def run_split(R, name, i, n, tier, history=None):
    """history given (replay): exactly those schedules, in order, on one fresh
    library object."""
    lib = libs.load(name)
    if history is not None:
        plan = [(h[0], h[1], tuple(h[2])) for h in history]
    else:
        mols = split_molecules(lib, tier)
        pairs = {}
        for a, b, sched in split_plan(tier, mols):
            pairs.setdefault((a, b), []).append(sched)
        keys = list(pairs)[i::n]        # a pair's schedules stay together
        R.extra['split_pairs'] += len(keys)
        plan = [(a, b, sched) for (a, b) in keys for sched in pairs[(a, b)]]
    done = []
    for a, b, sched in plan:
        done.append([a, b, list(sched)])
        R.evals += 1
        R.nontrivial += 1
        v = split_case(name, lib, a, b, sched)
        if v is None:
            R.outcomes['split:additive'] += 1
            continue
        R.outcomes['split:' + v[0].split(':')[0]] += 1
        if history is not None:
            R.violation(v[0], v[1], dict(kind='split', scheme=name,
                                         history=done[:]))
            continue
        known = [x['key'] for x in R.violations]
        if v[0] in known or v[0] + ':after-history' in known:
            R.violation(v[0] if v[0] in known else v[0] + ':after-history',
                        v[1], None)
            continue
        # first of its key in this shard: does the schedule violate by itself?
        alone = split_case(name, libs.load(name), a, b, sched)
        if alone is not None:
            R.violation(v[0], v[1], dict(kind='split', scheme=name,
                                         history=[done[-1]]))
        else:
            R.violation(v[0] + ':after-history', v[1] + ' - not on a fresh '
                        'library object, only after the %d schedules this '
                        'object went through before' % (len(done) - 1),
                        dict(kind='split', scheme=name, history=done[:]))


def shards(tier, seed):
    out = []
    for name in SD.distinct_schemes():
        nch = 8 if tier == 'quick' else 32
        for i in range(nch):
            out.append(('pairs', name, i, nch))
        out.append(('triples', name))
        out.append(('big', name))
        nr = 2 if tier == 'quick' else 8
        for i in range(nr):
            out.append(('rings', name, i, nr))
    for name in libs.LIBS:
        out.append(('estimates', name))
        nsch = 2 if tier == 'quick' else 4
        for i in range(nsch):
            out.append(('schedules', name, i, nsch))
        nsp = 1 if tier == 'quick' else 8
        for i in range(nsp):
            out.append(('split', name, i, nsp))
    return out


def run_shard(shard, tier):
    R = Result()
    if shard[0] == 'pairs':
        run_pairs(R, shard[1], shard[2], shard[3], tier)
    elif shard[0] == 'triples':
        run_triples(R, shard[1])
    elif shard[0] == 'big':
        run_big(R, shard[1])
    elif shard[0] == 'schedules':
        run_schedules(R, shard[1], shard[2], shard[3], tier)
    elif shard[0] == 'rings':
        run_rings(R, shard[1], shard[2], shard[3], tier)
    elif shard[0] == 'split':
        run_split(R, shard[1], shard[2], shard[3], tier)
    else:
        run_estimates(R, shard[1])
    return R


def replay(w):
    R = Result()
    if w['kind'] == 'est':
        run_estimates(R, w['scheme'], only=w['comps'])
    elif w['kind'] == 'sched':
        # the whole history of the case: a fresh library object, one schedule
        run_schedules(R, w['scheme'], 0, 1, 'quick',
                      only=(w['comps'], w['schedule']))
    elif w['kind'] == 'split':
        # the whole history of the case on a fresh library object
        run_split(R, w['scheme'], 0, 1, 'quick', history=w['history'])
    elif len(w['comps']) == 2:
        S = scheme(w['scheme'])
        single = {s: desc(S, s) for s in w['comps']}
        check(R, w['scheme'], S, tuple(w['comps']), single)
    else:
        run_triples(R, w['scheme'], only=w['comps'])
    return dict(violates=bool(R.violations),
                detail='\n'.join(v['msg'] for v in R.violations) or 'holds')
