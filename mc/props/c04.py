"""C04 - a mixture's descriptors are the sum of its components'.

All ordered pairs (self-pairs included) over each distinct scheme's molecule
domain, all triples over a 12-molecule sub-alphabet, undecomposable components
included.  Oracle: desc('A.B') == desc(A) + desc(B) key-wise; a failing
component makes the pair fail; estimates of the pair are the sums.
"""
import itertools

from ..runner import Result
from ..domains import schemes as SD
from ..domains import molecules as MD
from ..domains import libs

LEVEL = 'exploration'
BOUND = {'quick': 'per distinct scheme file: all ordered pairs over M(2) C/O with '
                  'radicals + adsorbates + curated + undecomposable molecules '
                  'and 14 whole-molecule / hydrogen-only species (~115 molecules); all ordered triples over 12 molecules; '
                  'estimates for all pairs over 10 molecules x 9 libraries; all '
                  'ordered pairs over 6 components of 20-24 heavy atoms',
         'thorough': 'the same over M(3) (~330 molecules per scheme)'}
RULE = ('every ordered pair / triple is written A.B(.C) and decomposed; '
        'non-trivial = both components decompose to non-empty dictionaries, or '
        'exactly one component is undecomposable (failure clause)')
ASSUMPTIONS = ['pairs whose component already exceeds 5000 embeddings for a '
               'pattern are excluded (substructure search truncates at 10000); '
               'none occur in the domain',
               'component order in the SMILES is part of the enumerated space']
MANIFEST = dict(
    technique='exhaustive enumeration of ordered molecule pairs and triples, '
              'additive differential oracle',
    text='For every ordered pair (and all triples over a sub-alphabet) of the '
         'enumerated molecule vocabulary of each shipped scheme, the '
         'descriptors of the dot-joined species must equal the key-wise sum of '
         'the components\' descriptors, a pair with an undecomposable '
         'component must fail, and every estimated property of the pair must '
         'equal the sum of the components\' properties.',
    note='Locality is checked on small components; very large components '
         'only through the curated list.',
    ref='5/C04')

# species that a scheme treats as a whole (one centre pattern spans the
# molecule, hydrogen-only species, isotopic hydrogen kept as a graph atom) and
# small species with molecule-level pattern prefixes or same-named group /
# correction descriptors
WHOLE = ['[H][H]', '[H]', '[2H]C', 'O=C=O', '[C-]#[O+]', '[C]$[C]', 'O', '[OH]',
         'OO', 'C1=CC1', 'C1=CCC1', 'C=C=O', 'C#CO', 'OC=CO']

TRIPLE = ['C', 'CC', 'C=C', 'CO', 'C=O', 'C1CC1', 'CC(C)C', 'c1ccccc1', 'CCO',
          'C#C', 'CCl', 'O']
_IMPL = {}


def scheme(name):
    if name not in _IMPL:
        from pgradd.GroupAdd.Scheme import GroupAdditivityScheme
        _IMPL[name] = GroupAdditivityScheme.Load(SD.scheme_path(name))
    return _IMPL[name]


def desc(S, x):
    from pgradd.Error import PatternMatchError
    try:
        d = S.GetDescriptors(x)
        return ('ok', {str(k): float(v) for k, v in d.items()})
    except PatternMatchError:
        return ('PME',)
    except Exception as e:       # noqa
        return ('EXC', type(e).__name__)


def domain(name, tier):
    n = 2 if tier == 'quick' else 3
    gas = list(MD.M(n, ('C', 'O'), 2))
    out = WHOLE + gas + MD.CURATED_GAS[:30] + MD.OUTSIDE_VOCAB[:4]
    metal = SD.SURFACE.get(name)
    if metal:
        out += MD.adsorbates(MD.M(2, ('C', 'O'), 2), metal)[:20]
        out += (MD.CURATED_RU if metal == 'Ru' else MD.CURATED_SURFACE)[:10]
    seen, res = set(), []
    for s in out:
        c = MD.canon(s)
        if c and c not in seen:
            seen.add(c)
            res.append(s)
    return res


def addd(parts):
    tot = {}
    for p in parts:
        for k, v in p.items():
            tot[k] = tot.get(k, 0.0) + v
    return tot


def check(R, name, S, comps, single):
    text = '.'.join(comps)
    got = desc(S, text)
    parts = [single[c] for c in comps]
    R.evals += 1
    fails = [p for p in parts if p[0] != 'ok']
    if (not fails and all(p[1] for p in parts)) or (0 < len(fails) < len(parts)):
        R.nontrivial += 1
    wit = dict(kind='mix', scheme=name, comps=list(comps))
    if fails:
        if got[0] == 'ok':
            R.outcomes['failure-clause-broken'] += 1
            R.violation('undecomposable-component-accepted',
                        '[%s] %s decomposes to %r although %s cannot be decomposed'
                        % (name, text, got[1], [c for c, p in zip(comps, parts) if p[0] != 'ok']),
                        wit)
        else:
            R.outcomes['fails-with-component'] += 1
        return
    want = addd([p[1] for p in parts])
    if got[0] != 'ok':
        R.outcomes['spurious-failure'] += 1
        R.violation('spurious-%s' % got[0], '[%s] %s: components decompose but '
                    'the mixture gave %r' % (name, text, got), wit)
        return
    keys = set(want) | set(got[1])
    bad = sorted(k for k in keys if abs(want.get(k, 0) - got[1].get(k, 0)) > 1e-9)
    if bad:
        R.outcomes['not-additive'] += 1
        R.violation('not-additive', '[%s] %s: %r, sum of components %r' % (
            name, text, {k: got[1].get(k) for k in bad}, {k: want.get(k) for k in bad}),
            wit)
    else:
        R.outcomes['additive'] += 1
        if len(want) >= 3:
            R.sample(dict(scheme=name, mixture=text, descriptors=got[1]), limit=1)


def run_pairs(R, name, i, n, tier, only=None):
    S = scheme(name)
    dom = domain(name, tier)
    single = {s: desc(S, s) for s in dom}
    for a in (dom[i::n] if only is None else [only[0]]):
        for b in (dom if only is None else [only[1]]):
            check(R, name, S, (a, b), single)


BIG = ['C' * 20, 'C' * 21, 'C' * 22, 'CC(C)' + 'C' * 19, 'O' + 'C' * 23,
       'C1CCCCC1' + 'C' * 16]


def run_big(R, name):
    """Pairs of large components: each alone far below the substructure-search
    limit, the pair several times larger."""
    S = scheme(name)
    single = {s: desc(S, s) for s in BIG}
    for a in BIG:
        for b in BIG:
            check(R, name, S, (a, b), single)


def run_triples(R, name, only=None):
    S = scheme(name)
    single = {s: desc(S, s) for s in TRIPLE}
    for t in (itertools.product(TRIPLE, repeat=3) if only is None else [tuple(only)]):
        check(R, name, S, t, single)


EST = ['C', 'CC', 'CCO', 'CC(C)C', 'C1CCCCC1', 'c1ccccc1', 'C=CC', 'CC=O',
       'C([Pt])C[Pt]', 'OC([Pt])C[Pt]', 'C([Ru])C[Ru]']


def run_estimates(R, name, only=None):
    from pgradd.Error import PatternMatchError
    lib = libs.load(name)

    def est(smi):
        try:
            d = lib.GetDescriptors(smi)
            e = lib.Estimate(d, 'thermochem')
            out = []
            for T in (298.15, 500.0, 900.0):
                for f in (e.get_CpoR, e.get_HoRT, e.get_SoR, e.get_GoRT):
                    try:
                        out.append(float(f(T)))
                    except Exception as ex:     # noqa
                        out.append(type(ex).__name__)
            return out
        except (PatternMatchError, Exception) as ex:    # noqa
            return type(ex).__name__
    single = {s: est(s) for s in EST}
    ok = [s for s in EST if isinstance(single[s], list)]
    for a in ok:
        for b in ok:
            if only is not None and [a, b] != only:
                continue
            R.evals += 1
            R.nontrivial += 1
            got = est(a + '.' + b)
            want = [x + y if isinstance(x, float) and isinstance(y, float) else
                    (x if isinstance(x, str) else y)
                    for x, y in zip(single[a], single[b])]
            same = isinstance(got, list) and all(
                (u == v) if isinstance(v, str) else
                (isinstance(u, float) and abs(u - v) <= 1e-9 * max(1, abs(v)))
                for u, v in zip(got, want))
            R.outcomes['estimate:additive' if same else 'estimate:not-additive'] += 1
            if not same:
                R.violation('estimate-not-additive', '[%s] %s.%s: %r, sum %r' % (
                    name, a, b, got if not isinstance(got, list) else got[:4], want[:4]),
                    dict(kind='est', scheme=name, comps=[a, b]))


def shards(tier, seed):
    out = []
    for name in SD.distinct_schemes():
        nch = 8 if tier == 'quick' else 32
        for i in range(nch):
            out.append(('pairs', name, i, nch))
        out.append(('triples', name))
        out.append(('big', name))
    for name in libs.LIBS:
        out.append(('estimates', name))
    return out


def run_shard(shard, tier):
    R = Result()
    if shard[0] == 'pairs':
        run_pairs(R, shard[1], shard[2], shard[3], tier)
    elif shard[0] == 'triples':
        run_triples(R, shard[1])
    elif shard[0] == 'big':
        run_big(R, shard[1])
    else:
        run_estimates(R, shard[1])
    return R


def replay(w):
    R = Result()
    if w['kind'] == 'est':
        run_estimates(R, w['scheme'], only=w['comps'])
    elif len(w['comps']) == 2:
        S = scheme(w['scheme'])
        single = {s: desc(S, s) for s in w['comps']}
        check(R, w['scheme'], S, tuple(w['comps']), single)
    else:
        run_triples(R, w['scheme'], only=w['comps'])
    return dict(violates=bool(R.violations),
                detail='\n'.join(v['msg'] for v in R.violations) or 'holds')
