"""C07 - dimensional results are the non-dimensional ones times R (and T).

All 16 keys of the gas-constant table x estimates (unit vectors, class pairs)
and single group correlations x the temperature grid x S_elements in {absent,
None, False, True}; elemental clause: every molecule of the enumerated
vocabulary decomposed immediately before the estimate.

Third wave (DESIGN.md 10.9), three further families:
 * the S_elements switch in every presentation of a truth value (Python bool,
   0/1, 0.0/1.0, numpy bool, numpy integer, 0-d bool array): the falsy ones on
   every object, the truthy ones in the elemental clause of every molecule;
 * the temperature handed over as something other than one Python float
   (numpy scalar, Python int, 0-d / 1-element array, the grid as an array in
   four layouts, an integer array) on every object, three unit strings;
 * decomposition histories: all sequences of 3 (thorough: also 4) letters over
   a 5-letter alphabet of (molecule, spelling/object) run back to back on ONE
   library object, the elemental clause evaluated after every step.

Fourth wave (DESIGN.md 10.11), two further families for the elemental clause:
 * hydrogen presentations: every vocabulary molecule handed over with SOME of
   its hydrogens as atoms of the graph and the others implicit - every
   non-empty subset of its hydrogen-bearing heavy atoms (more than 3 of them:
   every single one and all of them) x {molecule object with hydrogens added
   on those atoms only, the same graph parsed with removeHs=False, SMILES
   with all / with one hydrogen per chosen atom written [2H]} (thorough: also
   tritium-labelled molecule objects, pairs and all-but-one subsets);
 * two library objects obtained by two separate GroupLibrary.Load calls (by
   name / by path) used side by side: every ordered pair of letters of the
   history alphabet x all 6 interleavings of decompose-A, estimate-A,
   decompose-B, estimate-B, each estimate judged against the elemental sum of
   the molecule ITS library decomposed last.

Fifth wave, the ends of the temperature axis ("all temperatures in range"):
 * boundary temperatures 0, -0.0, 1e-300, 1e-6, 1, 1e6, 1e300 on every
   enumerated object (estimate or group correlation) whose range contains
   them (an object without a range contains them all): as a Python float on
   all 16 unit strings, and in every other presentation of one number (numpy
   float64, 0-d array, 1-element array, Python int / numpy int64 where
   integral; all of them as one float array, the integral ones as one integer
   array) on 3 unit strings;
 * the same, plus the object's own grid, on objects that ARE defined at 0 K:
   a synthetic library of 8 groups (range starting at 0 K, no range,
   reference temperature 0 K, the one-point range [0 K, 0 K], heat capacity
   data below which 0 K lies / with a datum at 0 K, H only, S only) - every
   group correlation, every unit estimate (count 1, 0.5), both orders of
   every pair of groups with counts (1, 1) and (2, -1);
 * and on correlations made directly by the constructor: 2 classes x 3 H x
   2 S x 3 heat capacity tables x 2 reference temperatures x 3 ranges.
"""
import math

from ..runner import Result
from ..domains import estimates as E
from ..domains import schemes as SD
from ..domains import libs
from ..domains import w3_c07 as W3
from ..domains import w4_c07 as W4
from ..domains import w5_c07 as W5

LEVEL = 'exploration'
# my own conversion factors to J/mol (exact definitions; per-molecule units
# through the Avogadro constant)
NA = 6.02214076e23
J_PER = {
    'J/mol': 1.0, 'kJ/mol': 1e3, 'L kPa/mol': 1.0, 'cm3 kPa/mol': 1e-3,
    'm3 Pa/mol': 1.0, 'cm3 MPa/mol': 1.0, 'm3 bar/mol': 1e5, 'L bar/mol': 100.0,
    'L torr/mol': 101325.0 / 760 / 1000, 'cal/mol': 4.184, 'kcal/mol': 4184.0,
    'L atm/mol': 101.325, 'cm3 atm/mol': 0.101325,
    'eV': 1.602176634e-19 * NA, 'Eh': 4.3597447222071e-18 * NA,
    'Ha': 4.3597447222071e-18 * NA,
}
BOUND = {t: '16 unit strings x (all unit vectors with count 1 and 0.5, all '
            'class pairs, every single group correlation) x grid temperatures '
            'x 4 S_elements settings; elemental clause on the scheme '
            'vocabulary of 3 libraries (M(3) + curated). '
            'Further, on every one of those objects: 5 more falsy presentations '
            'of S_elements (0, 0.0, numpy False, numpy int 0, 0-d False array) '
            'at every grid temperature; up to 9 presentations of the temperature '
            'other than a Python float (numpy float64, 0-d array, 1-element '
            'array, Python int - each on the first grid temperature; the grid '
            'as float array ascending, descending, as a column, with a repeated '
            'point; an integer-dtype array) x 3 unit strings (J/mol, kcal/mol, '
            'eV) x H, S, Cp, G. Elemental clause: 5 more truthy presentations '
            'of S_elements (1, 1.0, numpy True, numpy int 1, 0-d True array) x '
            '4 routes (S/R, G/RT, S, G) at both temperatures of every '
            'vocabulary molecule and spelling. Histories: per library (3) an '
            'alphabet of 5 letters (3 molecules as SMILES, a second spelling of '
            'one, one as molecule object), all 5^%s sequences executed back to '
            'back on one library object per first letter, elemental clause '
            '(S_elements True and numpy True, 4 routes, first temperature of '
            'the range) after every step' % ('3' if t == 'quick' else '3 and all 5^4')
            + '. Hydrogen presentations (elemental clause, S_elements True, 4 '
            'routes, first temperature of the range), on every vocabulary '
            'molecule of the 3 libraries: sigma = every non-empty subset of the '
            'hydrogen-bearing heavy atoms when there are at most %d of them, '
            'otherwise %s; x %d presentations (%s); molecules for which the '
            'library gives no estimate with an entropy (base SMILES) are '
            'skipped and counted. Two library objects: per '
            'library (3) x 3 ways of obtaining the pair by two separate Load '
            'calls (name+name, name+path, path+path) x all 25 ordered pairs of '
            'the 5 history letters x the 6 admissible interleavings of '
            'decompose-A, estimate-A, decompose-B, estimate-B; the elemental '
            'clause of each estimate right after it is made and again after '
            'all four operations. Boundary temperatures: %s, each one that '
            'lies inside the range of the object (no range = all of them), as '
            'Python float x 16 unit strings and as numpy float64, 0-d array, '
            '1-element array, Python int, numpy int64 (the last two where the '
            'value is integral), all of them as one float array and the '
            'integral ones as one integer array x 3 unit strings; on every '
            'estimate and group correlation above, and - together with the '
            "object's own grid (range ends, midpoint, reference temperature; "
            '298.15/500/1000 K without a range) - on (a) a synthetic library of '
            '8 groups valid at 0 K (range from 0 K / none / [0 K, 0 K], '
            'reference temperature 298.15 K / 0 K, without heat capacity data / '
            'with a table that starts above 0 K / with a datum at 0 K, H only, '
            'S only): each group correlation, each unit estimate with count 1 '
            'and 0.5, both orders of all 28 pairs with counts (1, 1) and '
            '(2, -1) = 128 estimates; (b) the %d correlations of the '
            'constructor product %d classes x %d H x %d S x %d heat capacity '
            'tables x %d reference temperatures x %d ranges (those with neither '
            'H nor S left out; combinations the constructor refuses are '
            'counted)' % (
                W4.H_ALL_SUBSETS[t],
                'every single atom and the full set' if t == 'quick' else
                'every single atom, every pair, every all-but-one set and the full set',
                len(W4.H_MODES[t]), ', '.join(W4.H_MODES[t]),
                ', '.join(repr(v) for _, v in W5.BOUNDARY_T),
                len(W5.ctor_specs()), len(W5.CTOR_CLASSES), len(W5.CTOR_H),
                len(W5.CTOR_S), len(W5.CTOR_CP), len(W5.CTOR_TREF),
                len(W5.CTOR_RANGE))
         for t in ('quick', 'thorough')}
RULE = ('for each (object, temperature, unit string) the four dimensional '
        'getters are compared with the non-dimensional ones times the tabulated '
        'R (1e-12), G with H - T*S, every pair of units with my own conversion '
        'factor (1e-6), and S relative to the elements with the sum over all '
        'atoms (counted by the harness, hydrogens included) of the tabulated '
        'elemental entropies.  The same comparisons are made element-wise '
        '(and on the shape) when the temperature is a numpy scalar, an int or '
        'an array: whatever the non-dimensional getter returns for that very '
        'argument, times R (and T); when the non-dimensional getter refuses '
        'the argument the dimensional one must not return.  Every truthy '
        'presentation of S_elements must lower S/R by the elemental sum, every '
        'falsy one must leave it alone.  In a history every step is judged '
        'against the elemental sum of the molecule of THAT step.  '
        'A molecule presented with some hydrogens explicit and some implicit '
        'is judged against the elemental sum over the atoms of the complete '
        'molecule (the harness adds the implicit hydrogens itself and checks '
        'that the presentation has the formula of the base SMILES).  With two '
        'library objects each estimate is judged against the molecule that '
        'the library it was made from decomposed last, whatever the other '
        'object did in between.  '
        'At a boundary temperature the comparisons are the same (dimensional '
        'getter against the non-dimensional one on the very same argument '
        'times R (and T), G against H - T*S, units against my own factors); '
        'where the reference product itself is not a finite number (H/RT '
        'diverges at 0 K when there is heat capacity data) the dimensional '
        'value must not be finite either.  '
        'Non-trivial = a unit other than J/mol, an elemental-reference '
        'evaluation, a temperature not given as a Python float, an S_elements '
        'value other than None/False/True, a history step, a hydrogen '
        'presentation, an operation on one of two library objects or a '
        'boundary temperature')
ASSUMPTIONS = ['pmutt.constants.R and S_elements are the "tabulated" values',
               'conversion factors between unit strings are written from the '
               'SI definitions; tolerance 1e-6 because the table is rounded '
               'to 8 digits',
               'for non-float temperatures the reference is the non-dimensional '
               'getter of the same object on the same argument (two routes, '
               'one object); whether an array is accepted at all is left to '
               'that getter (array vs scalar agreement: C05)',
               'the sequences of one history shard share a library object, so '
               'each sequence is also preceded by the earlier ones; the '
               'witness carries that complete history',
               'an isotope label does not change the element: [2H] and [3H] '
               'count with the tabulated elemental entropy of hydrogen (the '
               'table is indexed by atomic number)',
               'all cases of one two-library shard run on the same two '
               'objects (loading is the expensive step); the witness carries '
               'every case those objects have seen, and a replay obtains its '
               'own two objects by the same two Load calls',
               '"in range" for a boundary temperature is decided from the '
               'declared ranges (for an estimate: the intersection of the '
               'ranges of its groups, computed by the harness; none declared '
               '= every temperature); a temperature outside the declared range '
               'is not judged here even where the getters answer with a '
               'warning (C06)',
               '1e-300 and 1e300 are the ends of the alphabet because there '
               '(H/RT)*T*R is a normal floating-point number in every unit '
               'whichever way the product is associated; nearer to the '
               'underflow / overflow limits 1e-12 cannot be demanded']
MANIFEST = dict(
    technique='exhaustive enumeration of unit strings x estimates x '
              'temperatures vs own conversion table and atom count',
    text='Every unit string accepted by the gas-constant table, on every unit '
         'estimate, class-pair estimate and group correlation, at every grid '
         'temperature: H, S, Cp, G equal the non-dimensional values times R '
         '(and T), G = H - T*S, results in two units differ by the conversion '
         'factor; for every vocabulary molecule decomposed immediately before, '
         'S/R relative to the elements is lowered by exactly the sum of the '
         'tabulated elemental entropies over all atoms including hydrogens. '
         'The same with the temperature given as numpy scalar, int or array '
         '(9 presentations x 3 units), with S_elements given as any of 6 '
         'truthy / 7 falsy presentations of a truth value, and after every '
         'step of every 3-letter (thorough: 4-letter) decomposition history '
         'over 5 letters on one library object (3 libraries).  The elemental '
         'clause also for every vocabulary molecule presented with only some '
         'of its hydrogens as atoms (subsets of the hydrogen-bearing atoms x '
         '4 (thorough 5) ways of writing that down, as object and as string), '
         'and for two library objects from two Load calls used side by side '
         '(3 libraries x 3 ways of loading x 25 pairs of letters x 6 '
         'interleavings).  All of the first part also at the boundary '
         'temperatures 0, -0.0, 1e-300, 1e-6, 1, 1e6, 1e300 (as float and in '
         'every other presentation of one number) wherever they are in range, '
         'including a library of groups valid at 0 K and 180 correlations '
         'built by the constructor.',
    note='The elemental clause is checked for the molecule decomposed '
         'immediately before the estimate, also when that molecule or others '
         'were decomposed on the same library object earlier (histories of '
         'other operations: C15).',
    ref='5/C07')


def units_h():
    import pmutt.constants as c
    import inspect
    import re
    src = inspect.getsource(c.R)
    keys = re.findall(r"^\s*'([^']+)':\s*[0-9.eE+-]+,?\s*$", src, re.M)
    keys = [k for k in keys if k.endswith('/K')]
    return [k[:-2] for k in keys]


def rel(a, b):
    return abs(a - b) <= 1e-12 * max(abs(a), abs(b), 1e-300)


def check_object(R, what, obj, temps, wit, selements_ok=False):
    import pmutt.constants as c
    us = units_h()
    for T in temps:
        nd = {}
        for p in ('get_HoRT', 'get_SoR', 'get_CpoR'):
            nd[p] = E.ev(getattr(obj, p), T)
        Hj = Sj = None
        for u in us:
            R.evals += 1
            if u != 'J/mol':
                R.nontrivial += 1
            uk = u + '/K'
            problems = []
            h = E.ev(obj.get_H, T, u)
            s = E.ev(obj.get_S, T, uk)
            cp = E.ev(obj.get_Cp, T, uk)
            g = E.ev(obj.get_G, T, u)
            for name, dim, ndv, factor in (
                    ('H', h, nd['get_HoRT'], T * c.R(uk)),
                    ('S', s, nd['get_SoR'], c.R(uk)),
                    ('Cp', cp, nd['get_CpoR'], c.R(uk))):
                if ndv[0] != 'ok':
                    if dim[0] == 'ok':
                        problems.append('%s(%s) returned %r although the non-'
                                        'dimensional value raises %s' % (name, u, dim[1], ndv[1]))
                    continue
                if dim[0] != 'ok':
                    problems.append('%s(T, %r) raised %s' % (name, u, dim[1]))
                elif not rel(float(dim[1]), float(ndv[1]) * factor):
                    problems.append('%s(T, %r) = %r, expected %r' % (
                        name, u, dim[1], float(ndv[1]) * factor))
            if h[0] == 'ok' and s[0] == 'ok':
                if g[0] != 'ok':
                    problems.append('G(T, %r) raised %s' % (u, g[1]))
                elif abs(g[1] - (h[1] - T * s[1])) > 1e-9 * max(abs(h[1]), abs(T * s[1]), 1e-300):
                    problems.append('G(T, %r) = %r, H - T*S = %r' % (u, g[1], h[1] - T * s[1]))
            # unit ratios against J/mol through my own factors
            if h[0] == 'ok':
                hj = h[1] * J_PER[u]
                if Hj is None:
                    Hj = hj
                elif abs(hj - Hj) > 1e-6 * max(abs(Hj), 1e-300):
                    problems.append('H in %r is %r J/mol, in the first unit %r J/mol'
                                    % (u, hj, Hj))
            if s[0] == 'ok':
                sj = s[1] * J_PER[u]
                if Sj is None:
                    Sj = sj
                elif abs(sj - Sj) > 1e-6 * max(abs(Sj), 1e-300):
                    problems.append('S in %r is %r J/mol/K, in the first unit %r'
                                    % (uk, sj, Sj))
            R.outcomes['units:ok' if not problems else 'units:bad'] += 1
            for pr in problems[:2]:
                R.violation('dimensional:%s' % pr.split('(')[0].split(' ')[0],
                            '%s at T=%r: %s' % (what, T, pr), wit)
        # S_elements absent / None / False are the same thing
        base = nd['get_SoR']
        if base[0] == 'ok':
            for flag in (None, False):
                R.evals += 1
                v = E.ev(obj.get_SoR, T, S_elements=flag)
                if v[0] != 'ok' or v[1] != base[1]:
                    R.violation('S_elements-%s-changes-S' % flag,
                                '%s: get_SoR(T, S_elements=%r) gave %r, without the '
                                'argument %r' % (what, flag, v[1], base[1]), wit)
            # ... and so is every other falsy presentation of the switch
            for label, flag in W3.falsy_flags()[2:]:
                R.evals += 1
                R.nontrivial += 1
                v = E.ev(obj.get_SoR, T, S_elements=flag)
                bad = v[0] != 'ok' or v[1] != base[1]
                R.outcomes['falsy-flag:%s' % ('changes-S' if bad else 'same')] += 1
                if bad:
                    R.violation('S_elements-%s-changes-S' % label,
                                '%s: get_SoR(T, S_elements=%s) gave %r, without the '
                                'argument %r' % (what, label, v[1], base[1]), wit)


def same(a, b, tol, scale=None):
    """Array-aware equality: same shape, every element within tol relative
    to max(|a|, |b|) (or to `scale`).  NaN is never equal."""
    import numpy as np
    try:
        if np.shape(a) != np.shape(b):
            return False
        x = np.asarray(a, dtype=float)
        y = np.asarray(b, dtype=float)
        if scale is None:
            m = np.maximum(np.abs(x), np.abs(y))
        else:
            m = np.abs(np.asarray(scale, dtype=float))
        return bool(np.all(np.abs(x - y) <= tol * np.maximum(m, 1e-300)))
    except Exception:      # noqa
        return False


def check_presentations(R, what, obj, temps, wit):
    """The temperature given as numpy scalar / int / array: the dimensional
    getter must return what the non-dimensional one returns for the very same
    argument, times R (times T), element by element and in the same shape."""
    import numpy as np
    import pmutt.constants as c
    for label, T in W3.temperature_presentations(temps):
        nd = {}
        for p in ('get_HoRT', 'get_SoR', 'get_CpoR'):
            nd[p] = E.ev(getattr(obj, p), T)
        for u in W3.UNITS_T:
            R.evals += 1
            R.nontrivial += 1
            uk = u + '/K'
            problems = []
            h = E.ev(obj.get_H, T, u)
            s = E.ev(obj.get_S, T, uk)
            cp = E.ev(obj.get_Cp, T, uk)
            g = E.ev(obj.get_G, T, u)
            for name, dim, ndv, factor in (
                    ('H', h, nd['get_HoRT'], T * c.R(uk)),
                    ('S', s, nd['get_SoR'], c.R(uk)),
                    ('Cp', cp, nd['get_CpoR'], c.R(uk))):
                if ndv[0] != 'ok':
                    if dim[0] == 'ok':
                        problems.append('%s(%s) returned %r although the non-'
                                        'dimensional value raises %s' % (name, u, dim[1], ndv[1]))
                    continue
                if dim[0] != 'ok':
                    problems.append('%s(T, %r) raised %s although the non-dimensional '
                                    'getter returns %r' % (name, u, dim[1], ndv[1]))
                    continue
                want = E.ev(lambda: ndv[1] * factor)
                if want[0] != 'ok':
                    # the harness cannot form nd * R * T: nothing to compare
                    R.outcomes['T-presentation:product-undefined'] += 1
                    continue
                if not same(dim[1], want[1], 1e-12):
                    problems.append('%s(T, %r) = %r, expected %r' % (
                        name, u, dim[1], want[1]))
            if h[0] == 'ok' and s[0] == 'ok':
                hs = E.ev(lambda: h[1] - T * s[1])
                if g[0] != 'ok':
                    problems.append('G(T, %r) raised %s' % (u, g[1]))
                elif hs[0] == 'ok' and not same(
                        g[1], hs[1], 1e-9,
                        scale=np.maximum(np.abs(h[1]), np.abs(T * s[1]))):
                    problems.append('G(T, %r) = %r, H - T*S = %r' % (u, g[1], hs[1]))
            R.outcomes['T-presentation:%s' % ('ok' if not problems else 'bad')] += 1
            for pr in problems[:2]:
                R.violation('dimensional-T-presentation:%s' % pr.split('(')[0].split(' ')[0],
                            '%s at T=%r (%s): %s' % (what, T, label, pr), wit)


def elemental_problems(e, T, want_sub, flag, label, s0, g0, natoms):
    """The elemental clause on estimate `e` at T with the switch given as
    `flag`, through the four routes (S/R, G/RT, S, G); s0, g0 are the values
    without the switch.  Same comparisons as for the singleton True."""
    import pmutt.constants as c
    s1 = E.ev(e.get_SoR, T, S_elements=flag)
    g1 = E.ev(e.get_GoRT, T, S_elements=flag)
    sd = E.ev(e.get_S, T, 'J/mol/K', S_elements=flag)
    gd = E.ev(e.get_G, T, 'kJ/mol', S_elements=flag)
    probs = []
    if s1[0] != 'ok':
        probs.append('get_SoR(T, S_elements=%s) raised %s' % (label, s1[1]))
    elif abs((s0[1] - s1[1]) - want_sub) > 1e-9 * max(1, want_sub):
        probs.append('with S_elements=%s S/R is lowered by %r, elemental entropies '
                     'of all %d atoms sum to %r' % (label, s0[1] - s1[1], natoms, want_sub))
    if g0[0] == 'ok' and s1[0] == 'ok':
        if g1[0] != 'ok' or abs((g1[1] - g0[1]) - want_sub) > 1e-9 * max(1, want_sub):
            probs.append('G/RT relative to the elements (S_elements=%s): %r vs %r + %r' % (
                label, g1[1], g0[1], want_sub))
        if sd[0] != 'ok' or not rel(sd[1], s1[1] * c.R('J/mol/K')):
            probs.append('S(T, J/mol/K, S_elements=%s) = %r' % (label, sd[1]))
        if gd[0] != 'ok' or g1[0] != 'ok' or \
                abs(gd[1] - g1[1] * T * c.R('kJ/mol/K')) > 1e-9 * max(1, abs(gd[1])):
            probs.append('G(T, kJ/mol, S_elements=%s) = %r' % (label, gd[1]))
    return probs


def run_history(R, name, lib, history):
    """Execute `history` ([[kind, smiles], ...]) on the library object `lib`
    without resetting anything in between; after every step estimate the
    molecule just decomposed and judge the elemental clause against the
    elemental sum of THAT molecule (atoms counted here, hydrogens included)."""
    from rdkit import Chem
    import pmutt.constants as c
    for n, (kind, smi) in enumerate(history):
        wit = dict(kind='hist', lib=name, history=[list(x) for x in history[:n + 1]])
        arg = Chem.MolFromSmiles(smi) if kind == 'm' else smi
        r = E.ev(lib.GetDescriptors, arg)
        R.evals += 1
        R.nontrivial += 1
        if r[0] != 'ok':
            R.outcomes['history:not-decomposable'] += 1
            continue
        e = E.ev(lib.Estimate, r[1], 'thermochem')
        if e[0] != 'ok':
            R.outcomes['history:no-data'] += 1
            continue
        e = e[1]
        mh = Chem.AddHs(Chem.MolFromSmiles(smi))
        want_sub = math.fsum(c.S_elements[a.GetAtomicNum()] for a in mh.GetAtoms())
        rng = e.get_range()
        T = 298.15 if rng is None else float(rng[0])
        s0 = E.ev(e.get_SoR, T)
        if s0[0] != 'ok':
            R.outcomes['history:S-not-available'] += 1
            continue
        g0 = E.ev(e.get_GoRT, T)
        probs = []
        for label, flag in W3.truthy_flags()[:1] + W3.truthy_flags()[3:4]:
            probs += elemental_problems(e, T, want_sub, flag, label, s0, g0,
                                        mh.GetNumAtoms())
        revisit = any(Chem.CanonSmiles(x[1]) == Chem.CanonSmiles(smi)
                      for x in history[:n])
        R.outcomes['history:%s:%s' % ('revisit' if revisit else 'first-visit',
                                      'ok' if not probs else 'bad')] += 1
        for pr in probs[:1]:
            R.violation('history:elements:%s' % ('sum' if 'lowered' in pr else 'other'),
                        '[%s] step %d of %r (%s %s) at T=%r: %s' % (
                            name, n + 1, [x[1] if x[0] == 's' else 'Mol(%s)' % x[1]
                                          for x in history[:n + 1]],
                            'string' if kind == 's' else 'molecule object', smi, T, pr),
                        wit)


def has_entropy_estimate(lib, smi):
    """Does the library give an estimate with an entropy for the base SMILES
    (implicit hydrogens) at all?  Only used to skip the hydrogen presentations
    of molecules for which the elemental clause has nothing to judge."""
    r = E.ev(lib.GetDescriptors, smi)
    if r[0] != 'ok':
        return False
    e = E.ev(lib.Estimate, r[1], 'thermochem')
    if e[0] != 'ok':
        return False
    rng = e[1].get_range()
    return E.ev(e[1].get_SoR, 298.15 if rng is None else float(rng[0]))[0] == 'ok'


def check_hpres(R, name, lib, smi, recipe):
    """One hydrogen presentation (W4.present) of `smi`, decomposed immediately
    before the estimate; S relative to the elements must be lowered by the
    elemental entropies of ALL atoms, written or implied."""
    from rdkit import Chem
    import pmutt.constants as c
    wit = dict(kind='hpres', lib=name, smiles=smi, recipe=[recipe[0], list(recipe[1])])
    try:
        arg, n_exp, n_imp = W4.present(smi, recipe)
        Z = W4.atomic_numbers(arg)
    except Exception:      # noqa  (RDKit cannot build it: nothing to judge)
        R.outcomes['hpres:not-buildable'] += 1
        return
    base = sorted(a.GetAtomicNum() for a in
                  Chem.AddHs(Chem.MolFromSmiles(smi)).GetAtoms())
    if Z != base:
        # my own construction went wrong: never judge pgradd on it
        R.outcomes['hpres:presentation-changes-formula'] += 1
        return
    R.evals += 1
    R.nontrivial += 1
    r = E.ev(lib.GetDescriptors, arg)
    if r[0] != 'ok':
        R.outcomes['hpres:not-decomposable'] += 1
        return
    e = E.ev(lib.Estimate, r[1], 'thermochem')
    if e[0] != 'ok':
        R.outcomes['hpres:no-data'] += 1
        return
    e = e[1]
    want_sub = math.fsum(c.S_elements[z] for z in Z)
    rng = e.get_range()
    T = 298.15 if rng is None else float(rng[0])
    s0 = E.ev(e.get_SoR, T)
    if s0[0] != 'ok':
        R.outcomes['hpres:S-not-available'] += 1
        return
    g0 = E.ev(e.get_GoRT, T)
    probs = elemental_problems(e, T, want_sub, True, 'True', s0, g0, len(Z))
    mixed = 'mixed' if (n_exp and n_imp) else ('all-explicit' if n_exp else 'all-implicit')
    R.outcomes['hpres:%s:%s:%s' % (recipe[0], mixed, 'ok' if not probs else 'bad')] += 1
    for pr in probs[:1]:
        R.violation('hydrogen-presentation:elements:%s' % (
            'sum' if 'lowered' in pr else 'other'),
            '[%s] %s presented as %s on atoms %r (%d hydrogens written as atoms, %d '
            'implicit; argument %s) at T=%r: %s' % (
                name, smi, recipe[0], list(recipe[1]), n_exp, n_imp,
                arg if isinstance(arg, str) else 'Mol(%s)' % Chem.MolToSmiles(arg),
                T, pr), wit)
    R.sample(dict(library=name, molecule=smi, recipe=recipe,
                  argument=arg if isinstance(arg, str) else 'Mol(%s)' % Chem.MolToSmiles(arg),
                  explicit_H=n_exp, implicit_H=n_imp, elemental_SoR=want_sub), limit=1)


def run_pairs(R, name, route, cases, pair=None):
    """Two library objects A, B from two separate Load calls (`route`); every
    case [letter for A, letter for B, order] executes its four operations in
    `order`; each estimate is judged - right after it is made and again after
    the fourth operation - against the elemental sum of the molecule that ITS
    library decomposed last (atoms counted here)."""
    from rdkit import Chem
    import pmutt.constants as c
    if pair is None:
        how = route.split(',')
        pair = (W4.make_library(name, how[0]), W4.make_library(name, how[1]))
    L = dict(A=pair[0], B=pair[1])
    if L['A'] is L['B']:
        R.outcomes['pair:one-object'] += 1
    for n, (la, lb, order) in enumerate(cases):
        wit = dict(kind='pair', lib=name, route=route,
                   cases=[[list(x[0]), list(x[1]), list(x[2])] for x in cases[:n + 1]])
        letter = dict(A=la, B=lb)
        desc, est, want, natoms = {}, {}, {}, {}
        R.evals += 1
        R.nontrivial += 1

        def judge(which, when):
            e = est.get(which)
            if e is None:
                return
            rng = e.get_range()
            T = 298.15 if rng is None else float(rng[0])
            s0 = E.ev(e.get_SoR, T)
            if s0[0] != 'ok':
                R.outcomes['pair:S-not-available'] += 1
                return
            g0 = E.ev(e.get_GoRT, T)
            probs = elemental_problems(e, T, want[which], True, 'True', s0, g0,
                                       natoms[which])
            same_mol = Chem.CanonSmiles(la[1]) == Chem.CanonSmiles(lb[1])
            R.outcomes['pair:%s:%s:%s' % (
                when, 'same-molecule' if same_mol else 'different-molecules',
                'ok' if not probs else 'bad')] += 1
            for pr in probs[:1]:
                R.violation('two-libraries:elements:%s' % (
                    'sum' if 'lowered' in pr else 'other'),
                    '[%s, two objects loaded by %s] A gets %r, B gets %r, order %s: the '
                    'estimate of library %s (%s) at T=%r: %s' % (
                        name, route, la, lb, '-'.join(order), which, when, T, pr), wit)

        for op in order:
            which = op[1]
            kind, smi = letter[which]
            if op[0] == 'D':
                arg = Chem.MolFromSmiles(smi) if kind == 'm' else smi
                r = E.ev(L[which].GetDescriptors, arg)
                desc[which] = r[1] if r[0] == 'ok' else None
                if r[0] != 'ok':
                    R.outcomes['pair:not-decomposable'] += 1
                mh = Chem.AddHs(Chem.MolFromSmiles(smi))
                want[which] = math.fsum(c.S_elements[a.GetAtomicNum()]
                                        for a in mh.GetAtoms())
                natoms[which] = mh.GetNumAtoms()
            else:
                if desc.get(which) is None:
                    continue
                e = E.ev(L[which].Estimate, desc[which], 'thermochem')
                if e[0] != 'ok':
                    R.outcomes['pair:no-data'] += 1
                    continue
                est[which] = e[1]
                judge(which, 'fresh')
        for which in ('A', 'B'):
            judge(which, 'after-all-four')
    R.sample(dict(library=name, loaded_by=route, cases=len(cases),
                  interleavings=['-'.join(o) for o in W4.INTERLEAVINGS]), limit=1)


def check_elements(R, name, lib, smi, as_object=False):
    """Decompose immediately before the estimate; S relative to elements."""
    from rdkit import Chem
    import pmutt.constants as c
    wit = dict(kind='elem', lib=name, smiles=smi, as_object=as_object)
    r = E.ev(lib.GetDescriptors, Chem.MolFromSmiles(smi) if as_object else smi)
    if r[0] != 'ok':
        R.outcomes['elements:not-decomposable'] += 1
        return
    e = E.ev(lib.Estimate, r[1], 'thermochem')
    if e[0] != 'ok':
        R.outcomes['elements:no-data'] += 1
        return
    e = e[1]
    mh = Chem.AddHs(Chem.MolFromSmiles(smi))
    want_sub = math.fsum(c.S_elements[a.GetAtomicNum()] for a in mh.GetAtoms())
    rng = e.get_range()
    temps = [298.15] if rng is None else sorted({float(rng[0]), 0.5 * (rng[0] + rng[1])})
    for T in temps:
        s0 = E.ev(e.get_SoR, T)
        if s0[0] != 'ok':
            R.outcomes['elements:S-not-available'] += 1
            continue
        R.evals += 1
        R.nontrivial += 1
        s1 = E.ev(e.get_SoR, T, S_elements=True)
        g0 = E.ev(e.get_GoRT, T)
        g1 = E.ev(e.get_GoRT, T, S_elements=True)
        sd = E.ev(e.get_S, T, 'J/mol/K', S_elements=True)
        gd = E.ev(e.get_G, T, 'kJ/mol', S_elements=True)
        probs = []
        if s1[0] != 'ok':
            probs.append('get_SoR(T, S_elements=True) raised %s' % s1[1])
        elif abs((s0[1] - s1[1]) - want_sub) > 1e-9 * max(1, want_sub):
            probs.append('S/R is lowered by %r, elemental entropies of all %d atoms '
                         'sum to %r' % (s0[1] - s1[1], mh.GetNumAtoms(), want_sub))
        if g0[0] == 'ok' and s1[0] == 'ok':
            if g1[0] != 'ok' or abs((g1[1] - g0[1]) - want_sub) > 1e-9 * max(1, want_sub):
                probs.append('G/RT relative to the elements: %r vs %r + %r' % (
                    g1[1], g0[1], want_sub))
            if sd[0] != 'ok' or not rel(sd[1], s1[1] * c.R('J/mol/K')):
                probs.append('S(T, J/mol/K, S_elements=True) = %r' % (sd[1],))
            if gd[0] != 'ok' or abs(gd[1] - g1[1] * T * c.R('kJ/mol/K')) > 1e-9 * max(1, abs(gd[1])):
                probs.append('G(T, kJ/mol, S_elements=True) = %r' % (gd[1],))
        R.outcomes['elements:ok' if not probs else 'elements:bad'] += 1
        for pr in probs[:1]:
            R.violation('elements:%s' % ('sum' if 'lowered' in pr else 'other'),
                        '[%s] %s at T=%r: %s' % (name, smi, T, pr), wit)
        # every other truthy presentation of the switch asks for the same
        for label, flag in W3.truthy_flags()[1:]:
            R.evals += 1
            R.nontrivial += 1
            fp = elemental_problems(e, T, want_sub, flag, label, s0, g0,
                                    mh.GetNumAtoms())
            R.outcomes['elements-flag:%s' % ('ok' if not fp else 'bad')] += 1
            for pr in fp[:1]:
                R.violation('elements-flag:%s:%s' % (
                    label, 'sum' if 'lowered' in pr else 'other'),
                    '[%s] %s at T=%r: %s' % (name, smi, T, pr), wit)
    # ... and stays what it was when the library later decomposes something else
    T0 = temps[0]
    first = E.ev(e.get_SoR, T0, S_elements=True)
    other = 'O' if Chem.MolToSmiles(Chem.MolFromSmiles(smi)) != 'O' else 'CC'
    E.ev(lib.GetDescriptors, other)
    E.ev(lib.GetDescriptors, 'C' if other != 'C' else 'CC')
    again = E.ev(e.get_SoR, T0, S_elements=True)
    R.evals += 1
    R.nontrivial += 1
    if first[:2] != again[:2]:
        R.outcomes['elements:follows-later-decomposition'] += 1
        R.violation('elements:later-decomposition-changes-estimate',
                    '[%s] estimate for %s: S/R relative to the elements was %r, after the '
                    'library decomposed other molecules it is %r' % (name, smi, first[:2], again[:2]),
                    wit)
    else:
        R.outcomes['elements:stable'] += 1
    R.sample(dict(library=name, molecule=smi, atoms=mh.GetNumAtoms(),
                  elemental_SoR=want_sub), limit=1)


def agree(a, b, tol, scale=None):
    """`same`, for references that need not be finite: same shape; where the
    reference b is finite, a is within tol (relative to max(|a|, |b|) or to
    `scale`); where b is not finite (inf, nan), a is not finite either.
    -> (verdict, reference has a non-finite entry)"""
    import numpy as np
    try:
        if np.shape(a) != np.shape(b):
            return False, False
        x = np.asarray(a, dtype=float)
        y = np.asarray(b, dtype=float)
        fin = np.isfinite(y)
        if not np.all(np.isfinite(x) == fin):
            return False, not bool(np.all(fin))
        with np.errstate(all='ignore'):
            if scale is None:
                m = np.maximum(np.abs(x), np.abs(y))
            else:
                m = np.abs(np.asarray(scale, dtype=float))
                m = np.where(np.isfinite(m), m, 0.0)
            d = np.where(fin, np.abs(x - y), 0.0)
            lim = np.where(fin, tol * np.maximum(m, 1e-300), 0.0)
        return bool(np.all(d <= lim)), not bool(np.all(fin))
    except Exception:      # noqa
        return False, False


def check_boundary(R, what, obj, cases, wit):
    """`cases` = [(label, T, unit strings)] (W5.boundary_cases): T is a
    boundary temperature inside the range of `obj`, in some presentation.
    The comparisons of check_object / check_presentations: every dimensional
    getter against the non-dimensional one on the same argument times R (and
    T), G against H - T*S, units against each other through my own factors."""
    import numpy as np
    import pmutt.constants as c
    for label, T, units in cases:
        nd = {}
        for p in ('get_HoRT', 'get_SoR', 'get_CpoR'):
            nd[p] = E.ev(getattr(obj, p), T)
        first = {}
        for u in units:
            R.evals += 1
            R.nontrivial += 1
            uk = u + '/K'
            problems = []
            nonfinite = False
            h = E.ev(obj.get_H, T, u)
            s = E.ev(obj.get_S, T, uk)
            cp = E.ev(obj.get_Cp, T, uk)
            g = E.ev(obj.get_G, T, u)
            for name, dim, ndv, factor in (
                    ('H', h, nd['get_HoRT'], T * c.R(uk)),
                    ('S', s, nd['get_SoR'], c.R(uk)),
                    ('Cp', cp, nd['get_CpoR'], c.R(uk))):
                if ndv[0] != 'ok':
                    if dim[0] == 'ok':
                        problems.append('%s(%s) returned %r although the non-'
                                        'dimensional value raises %s' % (name, u, dim[1], ndv[1]))
                    continue
                if dim[0] != 'ok':
                    problems.append('%s(T, %r) raised %s although the non-dimensional '
                                    'getter returns %r' % (name, u, dim[1], ndv[1]))
                    continue
                with np.errstate(all='ignore'):
                    want = E.ev(lambda: ndv[1] * factor)
                if want[0] != 'ok':
                    R.outcomes['T-boundary:product-undefined'] += 1
                    continue
                ok, nf = agree(dim[1], want[1], 1e-12)
                nonfinite = nonfinite or nf
                if not ok:
                    problems.append('%s(T, %r) = %r, expected %r' % (
                        name, u, dim[1], want[1]))
            if h[0] == 'ok' and s[0] == 'ok':
                with np.errstate(all='ignore'):
                    hs = E.ev(lambda: h[1] - T * s[1])
                    sc = E.ev(lambda: np.maximum(np.abs(h[1]), np.abs(T * s[1])))
                if g[0] != 'ok':
                    problems.append('G(T, %r) raised %s' % (u, g[1]))
                elif hs[0] == 'ok' and sc[0] == 'ok':
                    ok, nf = agree(g[1], hs[1], 1e-9, scale=sc[1])
                    nonfinite = nonfinite or nf
                    if not ok:
                        problems.append('G(T, %r) = %r, H - T*S = %r' % (u, g[1], hs[1]))
            # units against each other, through my own factors to J/mol
            for name, dim in (('H', h), ('S', s)):
                if dim[0] != 'ok':
                    continue
                with np.errstate(all='ignore'):
                    vj = E.ev(lambda: dim[1] * J_PER[u])
                if vj[0] != 'ok':
                    continue
                if name not in first:
                    first[name] = vj[1]
                else:
                    ok, nf = agree(vj[1], first[name], 1e-6)
                    if not ok:
                        problems.append('%s in %r is %r J/mol%s, in the first unit %r' % (
                            name, u, vj[1], '/K' if name == 'S' else '', first[name]))
            R.outcomes['T-boundary:%s%s' % (
                'ok' if not problems else 'bad',
                ':reference-not-finite' if nonfinite else '')] += 1
            for pr in problems[:2]:
                R.violation('dimensional-T-boundary:%s' % pr.split('(')[0].split(' ')[0],
                            '%s at T=%r (%s): %s' % (what, T, label, pr), wit)


def run_zero_library(R, i, n, only=None):
    """The library of groups valid at 0 K (W5.ZERO_LIB): every estimate of
    W5.zero_mappings and every group correlation, at the boundary temperatures
    inside its range and on its own grid."""
    lib = W5.zero_library()
    us = units_h()
    for num, (tag, mapping) in enumerate(W5.zero_mappings(lib)):
        if num % n != i and only is None:
            continue
        m2 = [[str(g), c] for g, c in mapping]
        if only is not None and m2 != only:
            continue
        wit = dict(kind='zlib', mapping=m2)
        r = E.ev(lib.Estimate, dict((str(g), c) for g, c in mapping), 'thermochem')
        if r[0] != 'ok':
            R.outcomes['zero-library:no-estimate'] += 1
            continue
        rng = E.common_range(lib, mapping)
        if rng is not None and rng[0] > rng[1]:
            R.outcomes['zero-library:empty-common-range'] += 1
            continue
        trefs = [float(lib[g]['thermochem'].T_ref) for g, _ in mapping]
        grid = sorted(set(t for tr in trefs for t in W5.own_grid(rng, tr)))
        check_boundary(R, 'zero-K library estimate %r' % (m2,), r[1],
                       W5.boundary_cases(rng, us, W3.UNITS_T, extra=grid), wit)
        if tag == 'unit' and mapping[0][1] == 1:
            k = lib[mapping[0][0]]['thermochem']
            check_boundary(R, 'zero-K library [%s]' % (mapping[0][0],), k,
                           W5.boundary_cases(rng, us, W3.UNITS_T, extra=grid), wit)
        R.sample(dict(library='zero-K (synthetic)', mapping=m2, common_range=rng,
                      grid=grid, boundary_temperatures=[
                          t for _, t in W5.BOUNDARY_T if W5.in_range(t, rng)]), limit=1)


def check_constructed(R, spec):
    """One correlation made by the constructor (W5.build)."""
    wit = dict(kind='ctor', spec=spec)
    k = E.ev(W5.build, spec)
    if k[0] != 'ok':
        R.outcomes['constructor:refuses-%s' % k[1]] += 1
        return
    rng = spec['range']
    check_boundary(R, '%s(ND_H_ref=%r, ND_S_ref=%r, ND_Cp_data=%r, T_ref=%r, range=%r)' % (
        spec['cls'], spec['H'], spec['S'], dict((t, v) for t, v in spec['Cp']),
        spec['T_ref'], rng), k[1],
        W5.boundary_cases(rng, units_h(), W3.UNITS_T,
                          extra=W5.own_grid(rng, spec['T_ref'])), wit)
    R.sample(dict(constructed=spec), limit=1)


def run_estimates(R, name, i, n, only=None):
    lib = E.fresh(name)
    shown = []
    for num, (tag, mapping) in enumerate(E.mappings(lib, 'quick')):
        if num % n != i and only is None:
            continue
        if tag == 'triple' or (tag == 'unit' and mapping[0][1] not in (1, 0.5)) or \
                (tag == 'pair' and mapping[0][1] not in (1, 2)):
            continue
        m2 = [[str(g), c] for g, c in mapping]
        if only is not None and m2 != only:
            continue
        r = E.ev(lib.Estimate, dict((str(g), c) for g, c in mapping), 'thermochem')
        if r[0] != 'ok':
            continue
        temps = E.grid_inside(E.common_range(lib, mapping), mapping, lib)[:3]
        check_object(R, '%s estimate %r' % (name, m2), r[1], temps,
                     dict(kind='est', lib=name, mapping=m2))
        check_presentations(R, '%s estimate %r' % (name, m2), r[1], temps,
                            dict(kind='est', lib=name, mapping=m2))
        # the boundary temperatures that lie inside the common range
        bcases = W5.boundary_cases(E.common_range(lib, mapping), units_h(), W3.UNITS_T)
        R.outcomes['T-boundary:object-with-%s-boundary-temperature-in-range' % (
            'a' if bcases else 'no')] += 1
        check_boundary(R, '%s estimate %r' % (name, m2), r[1], bcases,
                       dict(kind='est', lib=name, mapping=m2))
        if tag == 'unit' and mapping[0][1] == 1:
            k = lib[mapping[0][0]]['thermochem']
            check_boundary(R, '%s[%s]' % (name, mapping[0][0]), k, bcases,
                           dict(kind='est', lib=name, mapping=m2))
            check_object(R, '%s[%s]' % (name, mapping[0][0]), k, temps,
                         dict(kind='est', lib=name, mapping=m2))
            check_presentations(R, '%s[%s]' % (name, mapping[0][0]), k, temps,
                                dict(kind='est', lib=name, mapping=m2))
        shown = temps
    R.sample(dict(library=name, units=units_h()), limit=1)
    R.sample(dict(library=name, units_for_temperature_presentations=W3.UNITS_T,
                  temperature_presentations=[
                      '%s: %r' % (l, t) for l, t in W3.temperature_presentations(shown)],
                  falsy_S_elements=[l for l, _ in W3.falsy_flags()],
                  truthy_S_elements=[l for l, _ in W3.truthy_flags()]), limit=2)


ELEM_LIBS = ['BensonGA', 'GRWSurface2018', 'XieGA2022']


def shards(tier, seed):
    out = []
    for name in libs.LIBS + ['synthetic']:
        for i in range(3):
            out.append(('est', name, i, 3))
    for name in ELEM_LIBS:
        for i in range(6):
            out.append(('elem', name, i, 6))
    # decomposition histories: one library object per (library, first letter)
    for name in ELEM_LIBS:
        for first in range(len(W3.HIST_LETTERS[name])):
            out.append(('hist', name, first))
    # hydrogen presentations of the vocabulary molecules
    for name in ELEM_LIBS:
        for i in range(4):
            out.append(('hpres', name, i, 4))
    # two library objects side by side: one pair per (library, way of loading)
    for name in ELEM_LIBS:
        for route in W4.PAIR_ROUTES:
            out.append(('pair', name, route))
    # boundary temperatures on objects defined at 0 K (both tiers alike)
    for i in range(4):
        out.append(('zlib', i, 4))
    for i in range(4):
        out.append(('ctor', i, 4))
    return out


def run_shard(shard, tier):
    R = Result()
    if shard[0] == 'est':
        run_estimates(R, shard[1], shard[2], shard[3])
    elif shard[0] == 'hist':
        # every sequence of the bound, back to back on ONE library object: the
        # history handed to run_history is everything that object has seen
        lib = E.fresh(shard[1])
        whole = []
        for length in W3.HIST_LEN[tier]:
            for h in W3.histories(shard[1], shard[2], length):
                whole.extend(h)
        run_history(R, shard[1], lib, whole)
        R.sample(dict(library=shard[1], letters=W3.HIST_LETTERS[shard[1]],
                      first_letter=shard[2], lengths=list(W3.HIST_LEN[tier]),
                      steps=len(whole)), limit=1)
    elif shard[0] == 'hpres':
        lib = E.fresh(shard[1])
        mols = SD.molecules_for(shard[1], 'quick')
        for smi in mols[shard[2]::shard[3]]:
            recipes = W4.h_recipes(smi, tier)
            if recipes and not has_entropy_estimate(lib, smi):
                # the elemental clause cannot be judged for this molecule in
                # this library however its hydrogens are written
                R.outcomes['hpres:skipped-molecule-without-entropy-estimate'] += 1
                R.outcomes['hpres:skipped-recipes'] += len(recipes)
                continue
            for recipe in recipes:
                check_hpres(R, shard[1], lib, smi, recipe)
    elif shard[0] == 'pair':
        run_pairs(R, shard[1], shard[2],
                  list(W4.pair_cases(W3.HIST_LETTERS[shard[1]])))
    elif shard[0] == 'zlib':
        run_zero_library(R, shard[1], shard[2])
    elif shard[0] == 'ctor':
        for spec in W5.ctor_specs()[shard[1]::shard[2]]:
            check_constructed(R, spec)
    else:
        lib = E.fresh(shard[1])
        mols = SD.molecules_for(shard[1], 'quick')
        from rdkit import Chem
        for smi in mols[shard[2]::shard[3]]:
            check_elements(R, shard[1], lib, smi)
            check_elements(R, shard[1], lib, smi, as_object=True)
            # the same molecule written with every hydrogen inside an atom
            # bracket ([CH3][CH2][OH]) and with hydrogens as atoms
            m = Chem.MolFromSmiles(smi)
            for alt in (Chem.MolToSmiles(m, allHsExplicit=True),
                        Chem.MolToSmiles(Chem.AddHs(m))):
                if alt != smi:
                    check_elements(R, shard[1], lib, alt)
    return R


def replay(w):
    R = Result()
    if w['kind'] == 'elem':
        check_elements(R, w['lib'], E.fresh(w['lib']), w['smiles'], w.get('as_object', False))
    elif w['kind'] == 'hpres':
        check_hpres(R, w['lib'], E.fresh(w['lib']), w['smiles'], w['recipe'])
    elif w['kind'] == 'pair':
        run_pairs(R, w['lib'], w['route'], [list(x) for x in w['cases']])
    elif w['kind'] == 'hist':
        run_history(R, w['lib'], E.fresh(w['lib']), [list(x) for x in w['history']])
    elif w['kind'] == 'zlib':
        run_zero_library(R, 0, 1, only=[list(x) for x in w['mapping']])
    elif w['kind'] == 'ctor':
        check_constructed(R, w['spec'])
    else:
        run_estimates(R, w['lib'], 0, 1, only=w['mapping'])
    return dict(violates=bool(R.violations),
                detail='\n'.join(v['msg'] for v in R.violations[:5]) or 'holds')
