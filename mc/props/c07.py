"""C07 - dimensional results are the non-dimensional ones times R (and T).

All 16 keys of the gas-constant table x estimates (unit vectors, class pairs)
and single group correlations x the temperature grid x S_elements in {absent,
None, False, True}; elemental clause: every molecule of the enumerated
vocabulary decomposed immediately before the estimate.
"""
import math

from ..runner import Result
from ..domains import estimates as E
from ..domains import schemes as SD
from ..domains import libs

LEVEL = 'exploration'
# my own conversion factors to J/mol (exact definitions; per-molecule units
# through the Avogadro constant)
NA = 6.02214076e23
J_PER = {
    'J/mol': 1.0, 'kJ/mol': 1e3, 'L kPa/mol': 1.0, 'cm3 kPa/mol': 1e-3,
    'm3 Pa/mol': 1.0, 'cm3 MPa/mol': 1.0, 'm3 bar/mol': 1e5, 'L bar/mol': 100.0,
    'L torr/mol': 101325.0 / 760 / 1000, 'cal/mol': 4.184, 'kcal/mol': 4184.0,
    'L atm/mol': 101.325, 'cm3 atm/mol': 0.101325,
    'eV': 1.602176634e-19 * NA, 'Eh': 4.3597447222071e-18 * NA,
    'Ha': 4.3597447222071e-18 * NA,
}
BOUND = {t: '16 unit strings x (all unit vectors with count 1 and 0.5, all '
            'class pairs, every single group correlation) x grid temperatures '
            'x 4 S_elements settings; elemental clause on the scheme '
            'vocabulary of 3 libraries (M(3) + curated)' for t in ('quick', 'thorough')}
RULE = ('for each (object, temperature, unit string) the four dimensional '
        'getters are compared with the non-dimensional ones times the tabulated '
        'R (1e-12), G with H - T*S, every pair of units with my own conversion '
        'factor (1e-6), and S relative to the elements with the sum over all '
        'atoms (counted by the harness, hydrogens included) of the tabulated '
        'elemental entropies.  Non-trivial = a unit other than J/mol, or an '
        'elemental-reference evaluation')
ASSUMPTIONS = ['pmutt.constants.R and S_elements are the "tabulated" values',
               'conversion factors between unit strings are written from the '
               'SI definitions; tolerance 1e-6 because the table is rounded '
               'to 8 digits']
MANIFEST = dict(
    technique='exhaustive enumeration of unit strings x estimates x '
              'temperatures vs own conversion table and atom count',
    text='Every unit string accepted by the gas-constant table, on every unit '
         'estimate, class-pair estimate and group correlation, at every grid '
         'temperature: H, S, Cp, G equal the non-dimensional values times R '
         '(and T), G = H - T*S, results in two units differ by the conversion '
         'factor; for every vocabulary molecule decomposed immediately before, '
         'S/R relative to the elements is lowered by exactly the sum of the '
         'tabulated elemental entropies over all atoms including hydrogens.',
    note='The elemental clause is checked for the molecule decomposed '
         'immediately before the estimate (other histories: C15).',
    ref='5/C07')


def units_h():
    import pmutt.constants as c
    import inspect
    import re
    src = inspect.getsource(c.R)
    keys = re.findall(r"^\s*'([^']+)':\s*[0-9.eE+-]+,?\s*$", src, re.M)
    keys = [k for k in keys if k.endswith('/K')]
    return [k[:-2] for k in keys]


def rel(a, b):
    return abs(a - b) <= 1e-12 * max(abs(a), abs(b), 1e-300)


def check_object(R, what, obj, temps, wit, selements_ok=False):
    import pmutt.constants as c
    us = units_h()
    for T in temps:
        nd = {}
        for p in ('get_HoRT', 'get_SoR', 'get_CpoR'):
            nd[p] = E.ev(getattr(obj, p), T)
        Hj = Sj = None
        for u in us:
            R.evals += 1
            if u != 'J/mol':
                R.nontrivial += 1
            uk = u + '/K'
            problems = []
            h = E.ev(obj.get_H, T, u)
            s = E.ev(obj.get_S, T, uk)
            cp = E.ev(obj.get_Cp, T, uk)
            g = E.ev(obj.get_G, T, u)
            for name, dim, ndv, factor in (
                    ('H', h, nd['get_HoRT'], T * c.R(uk)),
                    ('S', s, nd['get_SoR'], c.R(uk)),
                    ('Cp', cp, nd['get_CpoR'], c.R(uk))):
                if ndv[0] != 'ok':
                    if dim[0] == 'ok':
                        problems.append('%s(%s) returned %r although the non-'
                                        'dimensional value raises %s' % (name, u, dim[1], ndv[1]))
                    continue
                if dim[0] != 'ok':
                    problems.append('%s(T, %r) raised %s' % (name, u, dim[1]))
                elif not rel(float(dim[1]), float(ndv[1]) * factor):
                    problems.append('%s(T, %r) = %r, expected %r' % (
                        name, u, dim[1], float(ndv[1]) * factor))
            if h[0] == 'ok' and s[0] == 'ok':
                if g[0] != 'ok':
                    problems.append('G(T, %r) raised %s' % (u, g[1]))
                elif abs(g[1] - (h[1] - T * s[1])) > 1e-9 * max(abs(h[1]), abs(T * s[1]), 1e-300):
                    problems.append('G(T, %r) = %r, H - T*S = %r' % (u, g[1], h[1] - T * s[1]))
            # unit ratios against J/mol through my own factors
            if h[0] == 'ok':
                hj = h[1] * J_PER[u]
                if Hj is None:
                    Hj = hj
                elif abs(hj - Hj) > 1e-6 * max(abs(Hj), 1e-300):
                    problems.append('H in %r is %r J/mol, in the first unit %r J/mol'
                                    % (u, hj, Hj))
            if s[0] == 'ok':
                sj = s[1] * J_PER[u]
                if Sj is None:
                    Sj = sj
                elif abs(sj - Sj) > 1e-6 * max(abs(Sj), 1e-300):
                    problems.append('S in %r is %r J/mol/K, in the first unit %r'
                                    % (uk, sj, Sj))
            R.outcomes['units:ok' if not problems else 'units:bad'] += 1
            for pr in problems[:2]:
                R.violation('dimensional:%s' % pr.split('(')[0].split(' ')[0],
                            '%s at T=%r: %s' % (what, T, pr), wit)
        # S_elements absent / None / False are the same thing
        base = nd['get_SoR']
        if base[0] == 'ok':
            for flag in (None, False):
                R.evals += 1
                v = E.ev(obj.get_SoR, T, S_elements=flag)
                if v[0] != 'ok' or v[1] != base[1]:
                    R.violation('S_elements-%s-changes-S' % flag,
                                '%s: get_SoR(T, S_elements=%r) gave %r, without the '
                                'argument %r' % (what, flag, v[1], base[1]), wit)


def check_elements(R, name, lib, smi, as_object=False):
    """Decompose immediately before the estimate; S relative to elements."""
    from rdkit import Chem
    import pmutt.constants as c
    wit = dict(kind='elem', lib=name, smiles=smi, as_object=as_object)
    r = E.ev(lib.GetDescriptors, Chem.MolFromSmiles(smi) if as_object else smi)
    if r[0] != 'ok':
        R.outcomes['elements:not-decomposable'] += 1
        return
    e = E.ev(lib.Estimate, r[1], 'thermochem')
    if e[0] != 'ok':
        R.outcomes['elements:no-data'] += 1
        return
    e = e[1]
    mh = Chem.AddHs(Chem.MolFromSmiles(smi))
    want_sub = math.fsum(c.S_elements[a.GetAtomicNum()] for a in mh.GetAtoms())
    rng = e.get_range()
    temps = [298.15] if rng is None else sorted({float(rng[0]), 0.5 * (rng[0] + rng[1])})
    for T in temps:
        s0 = E.ev(e.get_SoR, T)
        if s0[0] != 'ok':
            R.outcomes['elements:S-not-available'] += 1
            continue
        R.evals += 1
        R.nontrivial += 1
        s1 = E.ev(e.get_SoR, T, S_elements=True)
        g0 = E.ev(e.get_GoRT, T)
        g1 = E.ev(e.get_GoRT, T, S_elements=True)
        sd = E.ev(e.get_S, T, 'J/mol/K', S_elements=True)
        gd = E.ev(e.get_G, T, 'kJ/mol', S_elements=True)
        probs = []
        if s1[0] != 'ok':
            probs.append('get_SoR(T, S_elements=True) raised %s' % s1[1])
        elif abs((s0[1] - s1[1]) - want_sub) > 1e-9 * max(1, want_sub):
            probs.append('S/R is lowered by %r, elemental entropies of all %d atoms '
                         'sum to %r' % (s0[1] - s1[1], mh.GetNumAtoms(), want_sub))
        if g0[0] == 'ok' and s1[0] == 'ok':
            if g1[0] != 'ok' or abs((g1[1] - g0[1]) - want_sub) > 1e-9 * max(1, want_sub):
                probs.append('G/RT relative to the elements: %r vs %r + %r' % (
                    g1[1], g0[1], want_sub))
            if sd[0] != 'ok' or not rel(sd[1], s1[1] * c.R('J/mol/K')):
                probs.append('S(T, J/mol/K, S_elements=True) = %r' % (sd[1],))
            if gd[0] != 'ok' or abs(gd[1] - g1[1] * T * c.R('kJ/mol/K')) > 1e-9 * max(1, abs(gd[1])):
                probs.append('G(T, kJ/mol, S_elements=True) = %r' % (gd[1],))
        R.outcomes['elements:ok' if not probs else 'elements:bad'] += 1
        for pr in probs[:1]:
            R.violation('elements:%s' % ('sum' if 'lowered' in pr else 'other'),
                        '[%s] %s at T=%r: %s' % (name, smi, T, pr), wit)
    # ... and stays what it was when the library later decomposes something else
    T0 = temps[0]
    first = E.ev(e.get_SoR, T0, S_elements=True)
    other = 'O' if Chem.MolToSmiles(Chem.MolFromSmiles(smi)) != 'O' else 'CC'
    E.ev(lib.GetDescriptors, other)
    E.ev(lib.GetDescriptors, 'C' if other != 'C' else 'CC')
    again = E.ev(e.get_SoR, T0, S_elements=True)
    R.evals += 1
    R.nontrivial += 1
    if first[:2] != again[:2]:
        R.outcomes['elements:follows-later-decomposition'] += 1
        R.violation('elements:later-decomposition-changes-estimate',
                    '[%s] estimate for %s: S/R relative to the elements was %r, after the '
                    'library decomposed other molecules it is %r' % (name, smi, first[:2], again[:2]),
                    wit)
    else:
        R.outcomes['elements:stable'] += 1
    R.sample(dict(library=name, molecule=smi, atoms=mh.GetNumAtoms(),
                  elemental_SoR=want_sub), limit=1)


def run_estimates(R, name, i, n, only=None):
    lib = E.fresh(name)
    for num, (tag, mapping) in enumerate(E.mappings(lib, 'quick')):
        if num % n != i and only is None:
            continue
        if tag == 'triple' or (tag == 'unit' and mapping[0][1] not in (1, 0.5)) or \
                (tag == 'pair' and mapping[0][1] not in (1, 2)):
            continue
        m2 = [[str(g), c] for g, c in mapping]
        if only is not None and m2 != only:
            continue
        r = E.ev(lib.Estimate, dict((str(g), c) for g, c in mapping), 'thermochem')
        if r[0] != 'ok':
            continue
        temps = E.grid_inside(E.common_range(lib, mapping), mapping, lib)[:3]
        check_object(R, '%s estimate %r' % (name, m2), r[1], temps,
                     dict(kind='est', lib=name, mapping=m2))
        if tag == 'unit' and mapping[0][1] == 1:
            k = lib[mapping[0][0]]['thermochem']
            check_object(R, '%s[%s]' % (name, mapping[0][0]), k, temps,
                         dict(kind='est', lib=name, mapping=m2))
    R.sample(dict(library=name, units=units_h()), limit=1)


ELEM_LIBS = ['BensonGA', 'GRWSurface2018', 'XieGA2022']


def shards(tier, seed):
    out = []
    for name in libs.LIBS + ['synthetic']:
        for i in range(3):
            out.append(('est', name, i, 3))
    for name in ELEM_LIBS:
        for i in range(6):
            out.append(('elem', name, i, 6))
    return out


def run_shard(shard, tier):
    R = Result()
    if shard[0] == 'est':
        run_estimates(R, shard[1], shard[2], shard[3])
    else:
        lib = E.fresh(shard[1])
        mols = SD.molecules_for(shard[1], 'quick')
        from rdkit import Chem
        for smi in mols[shard[2]::shard[3]]:
            check_elements(R, shard[1], lib, smi)
            check_elements(R, shard[1], lib, smi, as_object=True)
            # the same molecule written with every hydrogen inside an atom
            # bracket ([CH3][CH2][OH]) and with hydrogens as atoms
            m = Chem.MolFromSmiles(smi)
            for alt in (Chem.MolToSmiles(m, allHsExplicit=True),
                        Chem.MolToSmiles(Chem.AddHs(m))):
                if alt != smi:
                    check_elements(R, shard[1], lib, alt)
    return R


def replay(w):
    R = Result()
    if w['kind'] == 'elem':
        check_elements(R, w['lib'], E.fresh(w['lib']), w['smiles'], w.get('as_object', False))
    else:
        run_estimates(R, w['lib'], 0, 1, only=w['mapping'])
    return dict(violates=bool(R.violations),
                detail='\n'.join(v['msg'] for v in R.violations[:5]) or 'holds')
