"""C12 - loading a library does not depend on the units its data use.

Records: H in {0, -10.2, 1.5} kcal/mol, S in {0, 30.41} cal/mol/K, Cp table in
{none, 1 point, 3 points with a zero value, 4 points}, range {absent,
present}, T_ref {298.15, 300} K: 96 records.  Presentations: for each of H, S,
Cp independently {file-level default unit, explicit unit string,
non-dimensional key}, temperatures {default unit, explicit unit}; units rotate
through the alphabets (quick) or take the full product (thorough, on a
6-record core).  Every file is written to disk and loaded with
GroupLibrary.Load.

Third-wave families (both tiers; alphabets in mc/domains/w3_c12.py, factors by
the reference unit model mc/models/unitsref.py):

* unit space: every energy-dimension expression made of at most two names of
  the reference unit table (`a`, `a b`, `a/b`, `a b^2`, `a b^3`: J, cal, eV,
  erg, BTU, W s, W min, W h, hp h, N m, lbf ft, dyn m, Pa m^3, L atm, psi in^3,
  C V, F V^2, ...) per mol (and per K), as file-level default and as explicit
  unit, on a 2-record core (thorough: 8 records);
* prefixes: all 20 SI prefixes (y ... Y, incl. da and h) on the energy unit
  (J, cal), on the amount (mol) and on the kelvin (in entropy / heat-capacity
  units and in every temperature of the file), default and explicit.  The
  bare numbers of these files span about 1e-23 .. 1e+29, i.e. they are written in
  exponent notation as YAML floats; inside "<number> <unit>" strings they are
  written positionally (the unit grammar has no exponents);
* magnitudes: three records with tiny (1e-7 .. 1e-5) and huge (1e16 .. 1e17)
  values in all 54 mode combinations;
* several groups in one file: every ordered pair (incl. twice the same) of a
  4-record core with different reference temperatures, as two groups of ONE
  file sharing its file-level default units, each group in {default,
  explicit, non-dimensional} x temperatures {default, explicit} x T_ref line
  {written, omitted when 298.15 K}; each group must load as it does alone.

Fourth-wave families (both tiers; alphabets in mc/domains/w4_c12.py):

* spelling of explicit '<number><separator><unit>' strings: separator in {no
  blank (the bundled data write `100K`), one blank, two blanks} x number in
  {positional, integral values without '.0'} - the 5 spellings not used
  elsewhere - plus (sixth wave) one blank x {no digit before the point
  ('.5'), no digit after it ('5.')} - x every unit of the unit-space family (63) and every prefixed
  unit whose prefixed name directly follows the number (20 prefixes on J,
  cal, K), all four kinds explicit, on the 2-record core (thorough: 8);
* file layouts: the group's data in the loaded library.yaml itself, in an
  included file, in an included file of a sub-directory, behind a chain of
  two includes, in an included file beside own data of the includer (under
  OTHER default units), in the second / first of two included files, in the
  includer beside an include.  Valid presentations (4-record core x 3 value
  modes x 2 temperature modes) must load like alone, the other group of the
  library as well; and the missing-unit clause: 3 records x the kind whose
  default unit is missing x {default, explicit, non-dimensional}
  presentation of the other kinds, in all 8 layouts, each with a control (the
  same files with the unit in place must load);
* load histories, each in a process that has loaded no file containing a
  unit string before (forked copies of a fresh interpreter), over the letters
  {no prefix, 20 SI prefixes} at each of the positions J, mol, K: for
  every first letter, a file written with it and then files with all 21
  letters (every ordered pair (a, b) has a history in which a is the first
  unit ever loaded and b is loaded for the first time after it); and one
  walk of 442 files in which every ordered pair, twice the same included,
  occurs as two consecutive files.  Every file must load as it does alone.

Fifth-wave families (both tiers; alphabets in mc/domains/w5_c12.py):

* shapes of one unit expression: `energy/(mol K)` written in every way the
  documented unit grammar offers for a denominator - behind the energy name
  as `/d`, `/(d)`, ` d^-1`, `*d^-1`, ` d^(-1)`, ` 1/d`, `*(1/d)`, ` (1/d)`,
  in front of it as `1/d `, `1/d*`, `(1/d) `, `d^-1 `, `d^(-1)*`, `1/(d) `,
  the two denominators also grouped (`/(a b)`, ` (a*b)^-1`, ` 1/(a b)`,
  `1/(a*b) `, `(1/a/b)*` ...), all combinations in both orders of (mol, K):
  326 entropy / heat-capacity shapes and 14 enthalpy shapes, each as
  file-level default and as explicit unit (652 files per record; energy names
  kcal, J, cal, kJ rotate), on the 2-record core (thorough: 8 records);
* YAML scalar styles of bare numbers (those that rely on a default unit, and
  non-dimensional values): plain float (as before), plain integer, single-
  quoted, double-quoted, single- / double-quoted integer: each of the 5 new
  styles on all bare numbers of the file x all 54 mode combinations, and on
  the bare numbers of one kind (H, S, Cp, temperature) alone x that kind in
  {default, non-dimensional} x the other kinds in 3 modes x 2 temperature
  modes (475 files per record, 2-record core; thorough: 8); and the
  missing-unit clause with the orphaned bare numbers in each new style (3
  records x 4 kinds x 5 styles x 3 presentations of the other kinds, each
  with a loading control);
* one group's data split over the files of an include tree: every assignment
  of the pieces {H_ref, S_ref, even-numbered table points, odd-numbered table
  points, range} of a record to (loaded file, included file) that leaves
  neither empty and each block valid on its own x all 9 pairs of value modes
  (738 libraries over a 5-record core with zero H, zero S, both zero), and H,
  S, the rest in the three files of an include chain / fan x all 6
  assignments x 6 mode triples (288 libraries).  Every file has its own
  units block (different default units), the same T_ref (for 298.15 K
  written or left to the default, rotating).  The merged group must load
  like the whole record alone.
"""
import itertools
import os
import shutil
import tempfile

from ..runner import Result
from ..domains import estimates as E
from ..domains import w3_c12 as W
from ..domains import w4_c12 as X
from ..domains import w5_c12 as Y

TWO_HASH_SEEDS = ('quick', 'thorough')   # tiers in which the space is walked under a second PYTHONHASHSEED
LEVEL = 'exploration'
H_UNITS = ['kcal/mol', 'kJ/mol', 'J/mol', 'cal/mol', 'eV/molecule', 'daJ/mol']
S_UNITS = ['cal/(mol*K)', 'J/mol/K', 'kJ/(mol K)', 'cal/mol/K']
T_UNITS = ['K', 'kK', 'mK']
# my own factors to SI (J/mol, J/mol/K, K)
NA = 6.02214076e23
H_FACT = {'kcal/mol': 4184.0, 'kJ/mol': 1e3, 'J/mol': 1.0, 'cal/mol': 4.184,
          'eV/molecule': 1.602176634e-19 * NA, 'daJ/mol': 10.0}
S_FACT = {'cal/(mol*K)': 4.184, 'J/mol/K': 1.0, 'kJ/(mol K)': 1e3, 'cal/mol/K': 4.184}
T_FACT = {'K': 1.0, 'kK': 1e3, 'mK': 1e-3}
MODES = ['default', 'explicit', 'nd']
SCHEME = E.SCHEME
GROUP = 'C(C)(H)3'
GROUP2 = 'C(C)2(H)2'
BOUND = {'quick': '96 records x 54 mode combinations (3 modes for each of H, S, Cp '
                  'x 2 temperature modes), units rotating through 6 enthalpy, 4 '
                  'entropy/heat-capacity and 3 temperature units; 4 missing-unit '
                  'files per record class; every 298.15 K record also without a '
                  'T_ref line (54 mode combinations); '
                  'unit space: all %d energy expressions of at most two reference-table '
                  'names x {default, explicit} x 2 records; prefixes: 20 SI prefixes x '
                  '{J, cal, mol, K} x {default, explicit} x 2 records (bare numbers '
                  'about 1e-23..1e29 in exponent notation); magnitudes: 3 records with '
                  'tiny/huge values x 54 mode combinations; two groups in one file: '
                  'all 16 ordered pairs of a 4-record core x 9 mode pairs x all '
                  'temperature/T_ref-line presentations of each group; '
                  'spelling: 7 new (separator, number style) spellings (incl. .5 and 5.) of explicit '
                  'strings x (%d unit-space units + 20 prefixes x {J, cal, K}) x 2 '
                  'records; layouts: 7 include layouts x 4 records x 3 value modes x 2 '
                  'temperature modes, and the missing-unit clause in 8 layouts x 3 '
                  'records x 4 kinds x 3 presentations of the other kinds (each with a '
                  'loading control); load histories in forked copies of a fresh '
                  'interpreter, letters {no prefix, 20 SI prefixes} x 3 prefix '
                  'positions (J, mol, K): 21 histories "first letter, then all 21 letters" and one '
                  'walk of 442 files with every ordered pair of letters as neighbours; '
                  'unit shapes: %d writings of energy/(mol K) (and %d of energy/mol) by '
                  '/, *, juxtaposition, ^-1, ^(-1), 1/d, parentheses, leading or '
                  'trailing, grouped or separate, both orders x {default, explicit} x 2 '
                  'records; scalar styles: 5 new styles {integer, single-quoted, '
                  'double-quoted, single- / double-quoted integer} of bare numbers, '
                  'on all kinds x 54 mode combinations '
                  'and on each kind alone, x 2 records, and in the missing-unit clause '
                  '(3 records x 4 kinds x 5 styles x 3 presentations of the others); '
                  'splits: every valid assignment of {H, S, even / odd table points, '
                  'range} to (loaded file, included file) x 9 mode pairs and {H, S, '
                  'rest} over include chains / fans of three files x 6 assignments x 6 '
                  'mode triples, 5 records'
                  % (len(W.energy_exprs()), len(W.energy_exprs()),
                     len(Y.entropy_shapes()), len(Y.enthalpy_shapes())),
         'thorough': 'additionally the full product of modes and units for a '
                     '6-record core (every zero/non-zero combination); the unit-space '
                     'and prefix families on that core as well (8 records), and the '
                     'spelling family on those 8 records; layouts and load histories '
                     'as in quick; unit shapes and scalar styles on those 8 records; '
                     'missing-unit styles and splits as in quick'}
RULE = ('every presentation of every record is loaded; its reference values, '
        'table, range and reference temperature are compared with the record '
        'converted by the harness\'s own unit factors (1e-9; 1e-6 where eV per '
        'molecule is involved) and its getters with those of the '
        'non-dimensional presentation on a temperature grid; every value must '
        'be a plain float.  Non-trivial = at least one value uses a default or '
        'explicit unit, or is zero.  Unit-space / prefix units are converted by '
        'the reference unit model (1e-6 where eV, molecule, lbf, psi or hp is '
        'involved); with a prefixed kelvin the getters are compared at T_ref '
        'and the table temperatures, not at the ends of the range.  In a file '
        'with two groups each group is judged exactly like the same record '
        'alone in a file; so is a record written in another spelling of its '
        'explicit strings, in another file layout (there also the other group '
        'of the library), or loaded after another file in the same process.  '
        'A missing-unit file must make Load raise in every layout (its control '
        'with the unit in place must load), also when its bare numbers are '
        'quoted or integers.  A unit written in another shape is converted '
        'by the reference unit model reading that text; a record whose bare '
        'numbers are written in another YAML scalar style, or whose pieces are '
        'split over the files of an include tree, is judged exactly like the '
        'record alone in one file (fields and getters)')
ASSUMPTIONS = ['the gas constant used for non-dimensionalisation is the '
               'library\'s own (pgradd.Consts), required to lie within 1e-5 of '
               '8.31446 J/mol/K',
               'eV/molecule depends on CODATA vintage: tolerance 1e-6 there',
               'units whose definition contains a measured or rounded constant '
               '(eV, molecule, lbf and what derives from it: psi, hp): tolerance '
               '1e-6',
               'a bare number is what PyYAML (YAML 1.1) reads as a float: the '
               'harness writes exponent notation with a "." in the mantissa and '
               'a signed exponent; numbers inside "<number> <unit>" strings are '
               'written without exponent (the documented unit grammar has none)',
               'whether a temperature that is exactly an end of the valid range '
               'is inside it after conversion from a prefixed kelvin is decided '
               'by the last bit of the conversion: not judged',
               'blanks between the number and the unit of an explicit string are '
               'optional and may be repeated (documented grammar: juxtaposition; '
               'the bundled data write `100K`); an integral number may be written '
               'without a decimal point',
               'each file of a library carries its own units block: whether the '
               'default units of an including file are "available" to a bare '
               'number in an included file is not judged (no such case is '
               'enumerated)',
               'the starting state of a load history is a fresh interpreter that '
               'has imported pgradd and loaded one library file without any unit '
               'text (non-dimensional keys only); os.fork() copies that state '
               'faithfully',
               'a bare number may be written as any YAML scalar whose text is '
               'the number: plain float, plain integer, or quoted (the loader '
               'documents "explicit unit, else default unit of the kind"; a '
               'quoted number has no explicit unit).  Quoted numbers are written '
               'without exponent',
               'the pieces of a group may be spread over the files of an include '
               'tree (the loader merges included files into the group) provided '
               'every file\'s block is valid on its own (T_ref inside its range '
               'or table span) and all name the same T_ref; conflicting or '
               'overlapping pieces are C13\'s subject, not enumerated here']
MANIFEST = dict(
    technique='exhaustive enumeration of records x unit presentations loaded '
              'from generated files, differential against the non-dimensional '
              'presentation and an own unit conversion',
    text='The same group record written with file-level default units, '
         'explicit unit strings (several compatible units and prefixes) or '
         'non-dimensional keys, independently for enthalpy, entropy, heat '
         'capacity and temperature, must load to the same correlation with '
         'plain-number fields and getters, zero values included; a '
         'dimensional value without any available unit must be rejected.  '
         'Also enumerated: every energy unit expression of at most two unit '
         'names (W h, L atm, lbf ft, ...), all 20 SI prefixes on energy, '
         'amount and kelvin (bare numbers down to about 1e-23 and up to 1e29), '
         'records of tiny and huge magnitude, and files holding two groups '
         'with different reference temperatures and presentations; explicit '
         'strings written without / with two blanks between number and unit '
         'and with integral numbers (for every unit of the unit space and '
         'every prefix); the data placed in included files (7 layouts), '
         'the missing-unit clause in each of them; and every ordered pair '
         'of prefixed units loaded one after the other in a process that '
         'has loaded nothing with units before; every way of writing the '
         'denominators of a unit (/, ^-1, 1/d in front or behind, grouped '
         'in parentheses); bare numbers written as integers or quoted '
         'scalars (also in the missing-unit clause); and the pieces of one '
         'group spread over two or three files of an include tree, each '
         'with its own default units.',
    note='Values come from a small alphabet including zero and negative '
         'numbers; mixed units inside one Cp table are exercised through '
         'per-point explicit units.',
    ref='5/C12')


def records():
    out = []
    for H in (0.0, -10.2, 1.5):
        for S in (0.0, 30.41):
            for cp in ('none', 'one', 'three-with-zero', 'four'):
                for rng in (False, True):
                    for tref in (298.15, 300.0):
                        table = {'none': [], 'one': [(tref, 6.19)],
                                 'three-with-zero': [(280.0, 6.19), (400.0, 0.0), (500.0, 9.4)],
                                 'four': [(280.0, 6.19), (400.0, 7.84), (500.0, 9.4),
                                          (800.0, 13.02)]}[cp]
                        out.append(dict(H=H, S=S, cp=cp, table=table,
                                        range=(250.0, 1500.0) if rng else None,
                                        tref=tref))
    return out


def mag_records():
    """Records of tiny and of huge magnitude (kcal/mol, cal/mol/K)."""
    return [
        dict(H=2.5e-05, S=-3.5e-06, cp='tiny',
             table=[(280.0, 1.25e-07), (400.0, 7.84), (500.0, 6.5e-05)],
             range=(250.0, 1500.0), tref=298.15),
        dict(H=-7.25e+16, S=4.5e+17, cp='huge',
             table=[(280.0, 6.19), (400.0, 2.5e+16), (500.0, 9.4)],
             range=(250.0, 1500.0), tref=300.0),
        dict(H=-4.0e-07, S=6.0e+16, cp='none', table=[], range=None, tref=300.0),
    ]


def pool(name):
    return mag_records() if name == 'mag' else records()


def find(**kw):
    for i, r in enumerate(records()):
        if all(r[k] == v for k, v in kw.items()):
            return i
    raise KeyError(kw)


def ucore():
    """Records of the unit-space and prefix families: one without, one with
    zero values; both with a range wider than the table."""
    return [find(H=-10.2, S=30.41, cp='four', range=(250.0, 1500.0), tref=298.15),
            find(H=0.0, S=0.0, cp='three-with-zero', range=(250.0, 1500.0), tref=300.0)]


def gcore():
    """Records of the two-groups-in-one-file family: both reference
    temperatures, zero and non-zero enthalpy, every table shape."""
    return [find(H=-10.2, S=30.41, cp='four', range=(250.0, 1500.0), tref=298.15),
            find(H=1.5, S=0.0, cp='three-with-zero', range=(250.0, 1500.0), tref=300.0),
            find(H=0.0, S=30.41, cp='one', range=(250.0, 1500.0), tref=300.0),
            find(H=1.5, S=30.41, cp='none', range=None, tref=298.15)]


def gas_constant():
    from pgradd.Consts import GAS_CONSTANT
    return float(GAS_CONSTANT.in_units('J/(mol K)'))


def num(x):
    return repr(float(x))


# spelling of a bare number (YAML float) / of a number inside '<number> <unit>';
# both equal num(x) for 1e-4 <= |x| < 1e16
bare = W.yaml_float
inunit = W.positional
_FACT = {}


def hfact(u):
    if u in H_FACT:
        return H_FACT[u]
    if ('H', u) not in _FACT:
        _FACT['H', u] = W.si_factor(u, W.E_PER_MOL)
    return _FACT['H', u]


def sfact(u):
    if u in S_FACT:
        return S_FACT[u]
    if ('S', u) not in _FACT:
        _FACT['S', u] = W.si_factor(u, W.E_PER_MOL_K)
    return _FACT['S', u]


def tfact(u):
    if u in T_FACT:
        return T_FACT[u]
    if ('T', u) not in _FACT:
        _FACT['T', u] = W.si_factor(u, W.KELVIN)
    return _FACT['T', u]


def body(rec, mH, mS, mC, mT, uH, uS, uC, uT, R0, units, omit_tref=False, spell=None,
         styles=None):
    """Lines of one thermochem block; file-level defaults it relies on are
    entered into `units`.  spell = (separator, number style) of the explicit
    '<number><separator><unit>' strings (default: one blank, positional).
    styles = {kind in H S C T: YAML scalar style of that kind's bare numbers}
    (default: plain float).  A record whose H / S is None (a part of a split
    record) gets no line for it."""
    sep, style = spell or X.OLD_SPELLING
    styles = styles or {}

    def expl(v, u):
        return '%s%s%s' % (X.spell_number(v, style), sep, u)

    def bare(v, kind):
        st = styles.get(kind, Y.OLD_STYLE)
        return W.yaml_float(v) if st == Y.OLD_STYLE else Y.spell_bare(v, st)

    def temp(T):
        v = T / tfact(uT)
        if mT == 'default':
            units['temperature'] = uT
            return bare(v, 'T')
        return expl(v, uT)
    lines = []
    if not omit_tref:
        lines.append('      T_ref: %s' % temp(rec['tref']))
    if rec['H'] is None:
        pass
    elif mH == 'nd':
        lines.append('      ND_H_ref: %s' % bare(rec['H'] * 4184.0 / (R0 * rec['tref']), 'H'))
    else:
        v = rec['H'] * 4184.0 / hfact(uH)
        if mH == 'default':
            units['molar enthalpy'] = uH
            lines.append('      H_ref: %s' % bare(v, 'H'))
        else:
            lines.append('      H_ref: %s' % expl(v, uH))
    if rec['S'] is None:
        pass
    elif mS == 'nd':
        lines.append('      ND_S_ref: %s' % bare(rec['S'] * 4.184 / R0, 'S'))
    else:
        v = rec['S'] * 4.184 / sfact(uS)
        if mS == 'default':
            units['molar entropy'] = uS
            lines.append('      S_ref: %s' % bare(v, 'S'))
        else:
            lines.append('      S_ref: %s' % expl(v, uS))
    if rec['table']:
        lines.append('      %s:' % ('ND_Cp_data' if mC == 'nd' else 'Cp_data'))
        for k, (T, cp) in enumerate(rec['table']):
            cj = cp * 4.184
            if mC == 'nd':
                lines.append('        - [%s, %s]' % (temp(T), bare(cj / R0, 'C')))
            elif mC == 'default':
                units['molar heat capacity'] = uC
                lines.append('        - [%s, %s]' % (temp(T), bare(cj / sfact(uC), 'C')))
            else:
                # explicit: rotate the unit from point to point (units outside
                # the rotating alphabet are used for every point)
                u = (S_UNITS[(S_UNITS.index(uC) + k) % len(S_UNITS)]
                     if uC in S_UNITS else uC)
                lines.append('        - [%s, %s]' % (temp(T), expl(cj / sfact(u), u)))
    if rec['range']:
        lines.append('      range: [%s, %s]' % (temp(rec['range'][0]), temp(rec['range'][1])))
    return lines


def head(units):
    out = []
    if units:
        out.append('units:')
        for k in sorted(units):
            out.append('  %s: %s' % (k, units[k]))
    out.append('groups:')
    return out


def render(rec, mH, mS, mC, mT, uH, uS, uC, uT, R0, drop_default=None,
           omit_tref=False, spell=None, group=GROUP, styles=None):
    """-> YAML text.  m* in MODES (mT in default/explicit)."""
    units = {}
    lines = body(rec, mH, mS, mC, mT, uH, uS, uC, uT, R0, units, omit_tref, spell, styles)
    if drop_default:
        units.pop(drop_default, None)
    return '\n'.join(head(units) + ["  '%s':" % group, '    thermochem:'] + lines) + '\n'


def render_two(recs, press, omits, R0):
    """Two groups in ONE file.  A kind presented as 'default' in both groups
    must name the same unit in both (it is the file's default)."""
    units = {}
    text = []
    for name, rec, pres, omit in zip((GROUP, GROUP2), recs, press, omits):
        before = dict(units)
        lines = body(rec, *pres, R0, units, omit)
        for k in before:
            assert units[k] == before[k], 'harness: two defaults for %s' % k
        text += ["  '%s':" % name, '    thermochem:'] + lines
    return '\n'.join(head(units) + text) + '\n'


def load_text(text):
    import pgradd.ThermoChem    # noqa
    from pgradd.GroupAdd.Library import GroupLibrary
    with tempfile.TemporaryDirectory(prefix='pgv_c12_') as d:
        with open(os.path.join(d, 'scheme.yaml'), 'w') as f:
            f.write(SCHEME)
        with open(os.path.join(d, 'library.yaml'), 'w') as f:
            f.write(text)
        return GroupLibrary.Load(os.path.join(d, 'library.yaml'))


# ---- fourth wave: files in a scratch tree of this process (several files
# per library; also avoids one mkdtemp in the shared /tmp per case)

_SCRATCH = [None, 0]


def scratch():
    if _SCRATCH[0] is None or not os.path.isdir(_SCRATCH[0]):
        _SCRATCH[0] = tempfile.mkdtemp(prefix='pgv_c12w4_')
    return _SCRATCH[0]


def drop_scratch():
    if _SCRATCH[0] is not None:
        shutil.rmtree(_SCRATCH[0], ignore_errors=True)
        _SCRATCH[0] = None


def load_files(files, root=None):
    """files: {relative path: content}; loads its 'library.yaml'."""
    import pgradd.ThermoChem    # noqa
    from pgradd.GroupAdd.Library import GroupLibrary
    _SCRATCH[1] += 1
    d = os.path.join(root or scratch(), 'c%d_%d' % (os.getpid(), _SCRATCH[1]))
    os.mkdir(d)
    try:
        with open(os.path.join(d, 'scheme.yaml'), 'w') as f:
            f.write(SCHEME)
        for rel, content in files.items():
            path = os.path.join(d, rel)
            os.makedirs(os.path.dirname(path), exist_ok=True)
            with open(path, 'w') as f:
                f.write(content)
        return GroupLibrary.Load(os.path.join(d, 'library.yaml'))
    finally:
        shutil.rmtree(d, ignore_errors=True)


def plain(v):
    import numpy as np
    return isinstance(v, (float, int, np.floating, np.integer)) and not isinstance(v, bool)


def fields(k):
    rng = k.get_range()
    return dict(H=k.ND_H_ref, S=k.ND_S_ref,
                Cp=sorted((T, v) for T, v in k.ND_Cp_data.items()),
                range=None if rng is None else tuple(rng), tref=k.T_ref)


def observe(k, rec, interior=False):
    if not rec['range'] and len(rec['table']) == 1:
        # zero-width valid interval: whether T lies "inside" is decided by the
        # last bit of a unit conversion - only the fields are compared
        return []
    temps = sorted({rec['tref']} | {T for T, _ in rec['table']} |
                   ({rec['range'][0], rec['range'][1]}
                    if rec['range'] and not interior else set()))
    out = []
    for T in temps:
        for p in ('get_CpoR', 'get_HoRT', 'get_SoR'):
            out.append(E.ev(getattr(k, p), T)[:2])
    return out


def tol_of(pres):
    mH, mS, mC, mT, uH, uS, uC, uT = pres
    if uH == 'eV/molecule' and mH != 'nd':
        return 1e-6
    for m, u, known in ((mH, uH, H_FACT), (mS, uS, S_FACT), (mC, uC, S_FACT)):
        if m != 'nd' and u not in known and W.inexact(u):
            return 1e-6
    return 1e-9


def judge(k, rec, pres, R0, base_obs, interior=False):
    """-> list of disagreements between the loaded correlation k and the
    record (own conversion) / the non-dimensional presentation (getters)."""
    tol = tol_of(pres)
    f = fields(k)
    want = dict(H=rec['H'] * 4184.0 / (R0 * rec['tref']), S=rec['S'] * 4.184 / R0,
                Cp=[(T, cp * 4.184 / R0) for T, cp in rec['table']],
                range=rec['range'], tref=rec['tref'])
    probs = []

    def close(a, b, t=tol):
        return plain(a) and abs(float(a) - b) <= t * max(1.0, abs(b))
    for key in ('H', 'S', 'tref'):
        if not plain(f[key]):
            probs.append('%s is a %s (%r), not a plain number' % (key, type(f[key]).__name__, f[key]))
        elif not close(f[key], want[key], tol if key != 'tref' else 1e-9):
            probs.append('%s loads as %r, expected %r' % (key, f[key], want[key]))
    if len(f['Cp']) != len(want['Cp']):
        probs.append('Cp table has %d points, expected %d' % (len(f['Cp']), len(want['Cp'])))
    else:
        for (T, v), (T2, v2) in zip(f['Cp'], want['Cp']):
            if not plain(T) or not plain(v):
                probs.append('Cp point (%r, %r) is not made of plain numbers' % (T, v))
            elif not close(T, T2) or not close(v, v2):
                probs.append('Cp point loads as (%r, %r), expected (%r, %r)' % (T, v, T2, v2))
    if (f['range'] is None) != (want['range'] is None) or (
            f['range'] is not None and not (close(f['range'][0], want['range'][0]) and
                                            close(f['range'][1], want['range'][1]))):
        probs.append('range loads as %r, expected %r' % (f['range'], want['range']))
    if not probs:
        obs = observe(k, rec, interior)
        for a, b in zip(obs, base_obs):
            if a[0] != b[0]:
                probs.append('getter outcome %r vs non-dimensional presentation %r' % (a, b))
                break
            if a[0] == 'ok':
                if not plain(a[1]):
                    probs.append('getter returns %r (%s)' % (a[1], type(a[1]).__name__))
                    break
                if abs(float(a[1]) - float(b[1])) > tol * max(1.0, abs(float(b[1]))):
                    probs.append('getter gives %r, non-dimensional presentation %r' % (a[1], b[1]))
                    break
    return probs


def check(R, rec, pres, R0, base_obs, wit, fam='presentation', interior=False,
          spell=None, styles=None):
    mH, mS, mC, mT, uH, uS, uC, uT = pres
    text = render(rec, mH, mS, mC, mT, uH, uS, uC, uT, R0,
                  spell=tuple(spell) if spell else None, styles=styles)
    R.evals += 1
    if (mH, mS, mC) != ('nd', 'nd', 'nd') or rec['H'] == 0 or rec['S'] == 0:
        R.nontrivial += 1
    new = fam != 'presentation'
    try:
        lib = load_text(text) if fam != 'spelling' else load_files({'library.yaml': text})
        k = lib[GROUP]['thermochem']
    except Exception as e:      # noqa
        R.outcomes[(fam + ':' if new else '') + 'load-failed:' + type(e).__name__] += 1
        R.violation('%sload-failed:%s:%s' % (fam + ':' if new else '',
                                             type(e).__name__, zero_tag(rec)),
                    'a valid presentation %r of %r could not be loaded: %s\n%s'
                    % (pres, short(rec), e, text), wit)
        return
    probs = judge(k, rec, pres, R0, base_obs, interior)
    R.outcomes[(fam + ':' if new else '') + ('same' if not probs else 'differs')] += 1
    if probs:
        R.violation('%s:%s:%s' % (fam, probs[0].split(' ')[0], zero_tag(rec)),
                    '%r presented as %r%s%s: %s' % (
                        short(rec), pres, ' spelled %r' % (tuple(spell),) if spell else '',
                        ' with bare numbers written as %r' % (styles,) if styles else '',
                        probs[0])
                    + ('\n' + text if new else ''), wit)
    elif (mH, mS, mC) == ('default', 'explicit', 'nd'):
        R.sample(dict(record=short(rec), presentation=list(pres), file=text), limit=1)
    elif new and mH == 'default':
        R.sample(dict(family=fam, record=short(rec), presentation=list(pres), file=text),
                 limit=1)


def zero_tag(rec):
    z = [k for k in ('H', 'S') if rec[k] == 0] + (
        ['Cp'] if any(v == 0 for _, v in rec['table']) else [])
    return 'zero-' + '+'.join(z) if z else 'nonzero'


def short(rec):
    return dict(H=rec['H'], S=rec['S'], cp=rec['cp'], range=bool(rec['range']),
                tref=rec['tref'])


def presentations_rotating(i):
    n = 0
    for mH, mS, mC in itertools.product(MODES, repeat=3):
        for mT in ('default', 'explicit'):
            k = i + n
            yield (mH, mS, mC, mT, H_UNITS[k % len(H_UNITS)], S_UNITS[(k // 2) % 4],
                   S_UNITS[(k // 3) % 4], T_UNITS[k % 3])
            n += 1


def presentations_full():
    for mH, mS, mC in itertools.product(MODES, repeat=3):
        for mT in ('default', 'explicit'):
            for uH in (H_UNITS if mH != 'nd' else H_UNITS[:1]):
                for uS in (S_UNITS if mS != 'nd' else S_UNITS[:1]):
                    for uC in (S_UNITS if mC != 'nd' else S_UNITS[:1]):
                        for uT in T_UNITS:
                            yield (mH, mS, mC, mT, uH, uS, uC, uT)


def presentations_units():
    """Unit space: every energy expression, default and explicit."""
    for n, Ex in enumerate(W.energy_exprs()):
        uH, uS, uC = W.triple(Ex)
        for m in ('default', 'explicit'):
            yield (m, m, m, ('default', 'explicit')[n % 2], uH, uS, uC, 'K')


def presentations_prefix(pos):
    """All SI prefixes at one position (J, cal, mol, K), default and explicit."""
    for p in W.PREFIXES:
        uH, uS, uC, uT = W.prefix_units(pos, p)
        for m in ('default', 'explicit'):
            yield (m, m, m, m, uH, uS, uC, uT)


def base_of(rec, R0, interior=False):
    base_text = render(rec, 'nd', 'nd', 'nd', 'explicit', 'J/mol', 'J/mol/K', 'J/mol/K', 'K', R0)
    base = load_text(base_text)[GROUP]['thermochem']
    return observe(base, rec, interior)


def run_record(R, idx, tier, full=False, only=None):
    rec = records()[idx]
    R0 = gas_constant()
    if abs(R0 - 8.31446) > 1e-4:
        R.violation('gas-constant', 'library gas constant is %r J/mol/K' % R0,
                    dict(kind='const'))
    base_obs = base_of(rec, R0)
    pres = presentations_full() if full else presentations_rotating(idx)
    for p in pres:
        if only is not None and list(p) != only:
            continue
        check(R, rec, p, R0, base_obs, dict(kind='pres', record=idx, pres=list(p)))


def run_family(R, fam, poolname, idx, pos=None):
    """fam in units | prefix | magnitude: one record through one family."""
    rec = pool(poolname)[idx]
    R0 = gas_constant()
    interior = fam == 'prefix' and pos == 'K'
    if interior:
        assert rec['range'] and all(rec['range'][0] < T < rec['range'][1]
                                    for T, _ in rec['table'])
    base_obs = base_of(rec, R0, interior)
    pres = (presentations_units() if fam == 'units' else
            presentations_prefix(pos) if fam == 'prefix' else
            presentations_rotating(idx))
    for p in pres:
        run_case(R, dict(kind='case', fam=fam, pool=poolname, record=idx, pres=list(p),
                         interior=interior), R0, base_obs)


def run_case(R, w, R0=None, base_obs=None):
    rec = pool(w['pool'])[w['record']]
    if R0 is None:
        R0 = gas_constant()
        base_obs = base_of(rec, R0, w['interior'])
    check(R, rec, tuple(w['pres']), R0, base_obs, w, fam=w['fam'], interior=w['interior'],
          spell=w.get('spell'), styles=w.get('styles'))


# ---- two groups in one file

def group_presentations(rec):
    """(pres, omit_tref) of one group; value modes move together, the
    temperature mode and the T_ref line independently.  Explicit units
    rotate with n; default units are the file's (see multi_cases)."""
    for m in MODES:
        for mT in ('default', 'explicit'):
            for omit in ((False, True) if rec['tref'] == 298.15 else (False,)):
                yield m, mT, omit


def multi_cases(a):
    """All files whose FIRST group is record gcore()[a]."""
    core = gcore()
    rs = records()
    n = 0
    for b in range(len(core)):
        ra, rb = rs[core[a]], rs[core[b]]
        for (mA, tA, oA) in group_presentations(ra):
            for (mB, tB, oB) in group_presentations(rb):
                n += 1
                D = (H_UNITS[n % len(H_UNITS)], S_UNITS[n % 4], S_UNITS[(n // 2) % 4],
                     T_UNITS[n % 3])                    # the file's defaults
                X = [(H_UNITS[(n + 1 + g) % len(H_UNITS)], S_UNITS[(n + 2 + g) % 4],
                      S_UNITS[(n + 3 + g) % 4], T_UNITS[(n + 1 + g) % 3]) for g in (0, 1)]
                press = []
                for g, (m, t) in enumerate(((mA, tA), (mB, tB))):
                    u = D if m == 'default' else X[g]
                    uT = D[3] if t == 'default' else X[g][3]
                    press.append([m, m, m, t, u[0], u[1], u[2], uT])
                yield dict(kind='multi', recs=[core[a], core[b]], pres=press,
                           omit=[oA, oB])


_BASE = {}


def run_multi_case(R, w):
    R0 = gas_constant()
    rs = records()
    recs = [rs[i] for i in w['recs']]
    press = [tuple(p) for p in w['pres']]
    text = render_two(recs, press, w['omit'], R0)
    R.evals += 1
    R.nontrivial += 1
    try:
        lib = load_text(text)
        ks = [lib[g]['thermochem'] for g in (GROUP, GROUP2)]
    except Exception as e:      # noqa
        R.outcomes['multi:load-failed:' + type(e).__name__] += 1
        R.violation('multi:load-failed:%s' % type(e).__name__,
                    'a file with two groups %r presented as %r (T_ref line omitted: %r) '
                    'could not be loaded: %s\n%s'
                    % ([short(r) for r in recs], press, w['omit'], e, text), w)
        return
    bad = None
    for g, (k, rec, pres, idx) in enumerate(zip(ks, recs, press, w['recs'])):
        if idx not in _BASE:
            _BASE[idx] = base_of(rec, R0)
        probs = judge(k, rec, pres, R0, _BASE[idx])
        if probs and bad is None:
            bad = (g, probs[0])
    R.outcomes['multi:%s' % ('same' if bad is None else 'differs')] += 1
    if bad is not None:
        g, p = bad
        R.violation('multi:%s:%s-group' % (p.split(' ')[0], ('first', 'second')[g]),
                    'file with two groups %r presented as %r (T_ref line omitted: %r): '
                    'the %s group: %s\n%s' % ([short(r) for r in recs], press, w['omit'],
                                              ('first', 'second')[g], p, text), w)
    elif press[0][0] == 'default' and press[1][0] == 'explicit':
        R.sample(dict(family='two groups in one file', file=text), limit=1)


def run_multi(R, a):
    for w in multi_cases(a):
        run_multi_case(R, w)


def run_default_tref(R, idx, only=None):
    """Records whose T_ref is the documented default (298.15 K) written
    WITHOUT a T_ref line, in every mode combination."""
    rec = records()[idx]
    if rec['tref'] != 298.15:
        return
    if not rec['range'] and len(rec['table']) == 1:
        return      # zero-width valid interval (see observe())
    R0 = gas_constant()
    base = load_text(render(rec, 'nd', 'nd', 'nd', 'explicit', 'J/mol', 'J/mol/K',
                            'J/mol/K', 'K', R0))[GROUP]['thermochem']
    base_obs = observe(base, rec)
    for n, (mH, mS, mC) in enumerate(itertools.product(MODES, repeat=3)):
        for mT in ('default', 'explicit'):
            pres = (mH, mS, mC, mT, H_UNITS[n % len(H_UNITS)], S_UNITS[n % 4],
                    S_UNITS[(n + 1) % 4], T_UNITS[n % 3])
            if only is not None and list(pres) != only:
                continue
            text = render(rec, *pres, R0, omit_tref=True)
            R.evals += 1
            R.nontrivial += 1
            wit = dict(kind='tref-default', record=idx, pres=list(pres))
            try:
                k = load_text(text)[GROUP]['thermochem']
            except Exception as e:      # noqa
                R.outcomes['default-T_ref:load-failed'] += 1
                R.violation('default-T_ref:load-failed:%s' % type(e).__name__,
                            '%r without a T_ref line (default 298.15 K), presented as %r, '
                            'cannot be loaded: %s\n%s' % (short(rec), pres, e, text), wit)
                continue
            obs = observe(k, rec)
            bad = abs(float(k.T_ref) - 298.15) > 1e-9 or any(
                a[0] != b[0] or (a[0] == 'ok' and abs(float(a[1]) - float(b[1])) >
                                 (1e-6 if pres[4] == 'eV/molecule' and mH != 'nd' else 1e-9)
                                 * max(1.0, abs(float(b[1]))))
                for a, b in zip(obs, base_obs))
            R.outcomes['default-T_ref:%s' % ('differs' if bad else 'same')] += 1
            if bad:
                R.violation('default-T_ref:differs', '%r without a T_ref line, presented '
                            'as %r: T_ref=%r, getters %r vs %r' % (
                                short(rec), pres, k.T_ref, obs[:3], base_obs[:3]), wit)


def run_missing(R):
    """A dimensional value with no unit available must be rejected."""
    R0 = gas_constant()
    for idx in (29, 77):         # one record with, one without a range
        rec = records()[idx]
        for kind in ('molar enthalpy', 'molar entropy', 'molar heat capacity',
                     'temperature'):
            if kind == 'molar heat capacity' and not rec['table']:
                continue
            text = render(rec, 'default', 'default', 'default', 'default',
                          'kcal/mol', 'cal/(mol*K)', 'cal/(mol*K)', 'K', R0,
                          drop_default=kind)
            R.evals += 1
            R.nontrivial += 1
            try:
                load_text(text)
                R.outcomes['missing-unit:accepted'] += 1
                R.violation('missing-unit-accepted:' + kind,
                            'no unit is available for the %s values but the file '
                            'was loaded:\n%s' % (kind, text),
                            dict(kind='missing', record=idx, what=kind))
            except Exception as e:      # noqa
                R.outcomes['missing-unit:rejected(%s)' % type(e).__name__] += 1


# ---- fourth wave: spelling of explicit '<number><separator><unit>' strings

def presentations_spelling():
    """(presentation, interior): every unit of the unit-space family and
    every prefixed unit of the positions where the prefixed name follows the
    number, all four kinds explicit - so every number of the file stands
    directly against the first name of its unit."""
    for Ex in W.energy_exprs():
        yield ('explicit',) * 4 + W.triple(Ex) + ('K',), False
    for pos in X.SPELL_PREFIX_POSITIONS:
        for p in W.PREFIXES:
            yield ('explicit',) * 4 + W.prefix_units(pos, p), pos == 'K'


def run_spelling(R, idx, si):
    """One record through every unit in ONE new spelling."""
    rec = records()[idx]
    R0 = gas_constant()
    base = {False: base_of(rec, R0, False), True: base_of(rec, R0, True)}
    for pres, interior in presentations_spelling():
        run_case(R, dict(kind='case', fam='spelling', pool='records', record=idx,
                         pres=list(pres), interior=interior,
                         spell=list(X.NEW_SPELLINGS[si])), R0, base[interior])


# ---- fourth wave: where the data sit relative to the loaded library.yaml

MISSING_KINDS = ('molar enthalpy', 'molar entropy', 'molar heat capacity', 'temperature')
MISSING_RECORDS = (29, 77, 62)      # zero H / zero S / no zero, with a range


def other_file(n, R0):
    """A complete valid file for GROUP2 whose default units all differ from
    the kcal / cal / K and from the n-th rotation used beside it."""
    rs = records()
    rec = rs[gcore()[n % 4]]
    pres = ('default',) * 4 + (H_UNITS[(n + 1) % len(H_UNITS)], S_UNITS[(n + 1) % 4],
                               S_UNITS[(n // 2 + 1) % 4], T_UNITS[(n + 1) % 3])
    return rec, pres, render(rec, *pres, R0, group=GROUP2)


def layout_cases(layout):
    """Valid presentations in one layout: 4-record core x value modes moving
    together x temperature mode; units rotate."""
    if layout == 'self':
        return
    n = 0
    for ia in gcore():
        for m in MODES:
            for mT in ('default', 'explicit'):
                n += 1
                yield dict(kind='layout', layout=layout, record=ia, n=n,
                           pres=[m, m, m, mT, H_UNITS[n % len(H_UNITS)], S_UNITS[n % 4],
                                 S_UNITS[(n // 2) % 4], T_UNITS[n % 3]])


def base_cached(idx, R0):
    if idx not in _BASE:
        _BASE[idx] = base_of(records()[idx], R0)
    return _BASE[idx]


def run_layout_case(R, w):
    R0 = gas_constant()
    rec = records()[w['record']]
    pres = tuple(w['pres'])
    rec2, pres2, other = other_file(w['n'], R0)
    files = X.lay_out(w['layout'], render(rec, *pres, R0), other)
    where = 'included-file' if w['layout'] in X.IN_INCLUDED_FILE else 'own-file'
    two = X.has_other(w['layout'])
    shown = '\n'.join('--- %s\n%s' % (p, files[p]) for p in sorted(files))
    R.evals += 1
    R.nontrivial += 1
    try:
        lib = load_files(files)
        ks = [lib[GROUP]['thermochem']] + ([lib[GROUP2]['thermochem']] if two else [])
    except Exception as e:      # noqa
        R.outcomes['layout:load-failed:' + type(e).__name__] += 1
        R.violation('layout:load-failed:%s:%s' % (type(e).__name__, where),
                    '%r presented as %r in layout %r could not be loaded: %s\n%s'
                    % (short(rec), pres, w['layout'], e, shown), w)
        return
    bad = None
    for g, (k, r_, p_) in enumerate(zip(ks, (rec, rec2), (pres, pres2))):
        probs = judge(k, r_, p_, R0, base_cached(records().index(r_), R0))
        if probs and bad is None:
            bad = (g, probs[0])
    R.outcomes['layout:%s' % ('same' if bad is None else 'differs')] += 1
    if bad is not None:
        g, p = bad
        R.violation('layout:%s:%s%s' % (p.split(' ')[0], where,
                                        ':the-other-group' if g else ''),
                    '%r presented as %r in layout %r: %s: %s\n%s' % (
                        short(rec), pres, w['layout'],
                        'the other group of the library' if g else 'the group', p, shown), w)
    elif pres[0] == 'default' and two:
        R.sample(dict(family='layout', layout=w['layout'], files=files), limit=1)


def missing_cases(layout):
    """The missing-unit clause in one layout: 3 records x the kind whose
    default is missing x how the OTHER kinds are presented (moving together).
    ('self', all default) is run_missing()."""
    for idx in MISSING_RECORDS:
        for kind in MISSING_KINDS:
            if kind == 'molar heat capacity' and not records()[idx]['table']:
                continue
            for m in MODES:
                if layout == 'self' and m == 'default':
                    continue
                yield dict(kind='missing-layout', layout=layout, record=idx, what=kind,
                           others=m)


def run_missing_layout_case(R, w):
    R0 = gas_constant()
    rec = records()[w['record']]
    kind, m = w['what'], w['others']
    mH, mS, mC = [('default' if kind == k_ else m) for k_ in MISSING_KINDS[:3]]
    mT = 'default' if kind == 'temperature' or m == 'default' else 'explicit'
    pres = (mH, mS, mC, mT, 'kcal/mol', 'cal/(mol*K)', 'cal/(mol*K)', 'K')
    _, _, other = other_file(0, R0)
    where = 'included-file' if w['layout'] in X.IN_INCLUDED_FILE else 'own-file'
    R.evals += 1
    R.nontrivial += 1
    # control: with the default unit in place the very same files load
    control = X.lay_out(w['layout'], render(rec, *pres, R0), other)
    try:
        load_files(control)[GROUP]['thermochem']
    except Exception as e:      # noqa
        R.outcomes['missing-unit:control-not-loaded'] += 1
        R.violation('missing-unit-control-load-failed:%s:%s' % (where, type(e).__name__),
                    'the control of a missing-unit case (default unit for the %s '
                    'present, layout %r) could not be loaded: %s\n%s'
                    % (kind, w['layout'], e, control), w)
        return
    files = X.lay_out(w['layout'], render(rec, *pres, R0, drop_default=kind), other)
    try:
        lib = load_files(files)
    except Exception as e:      # noqa
        R.outcomes['missing-unit:%s:rejected(%s)' % (where, type(e).__name__)] += 1
        return
    R.outcomes['missing-unit:%s:accepted' % where] += 1
    R.violation('missing-unit-accepted:%s:%s' % (where, kind),
                'no unit is available for the %s values of the group (the other kinds '
                'presented as %r; layout %r) but the library was loaded, with groups '
                '%r:\n%s' % (kind, m, w['layout'], sorted(str(g) for g in lib),
                             '\n'.join('--- %s\n%s' % (p, files[p]) for p in sorted(files))),
                w)


def run_layout(R, layout):
    for w in layout_cases(layout):
        run_layout_case(R, w)
    for w in missing_cases(layout):
        run_missing_layout_case(R, w)


# ---- fourth wave: what was loaded EARLIER in the same process

def hrec():
    return find(H=-10.2, S=30.41, cp='one', range=(250.0, 1500.0), tref=298.15)


def histories(pos):
    """Load histories at one prefix position over the 21 letters {no prefix,
    20 SI prefixes}; a step is (prefix, mode), modes alternate along the
    history.
    * first-ever: for every first letter, that file and then all 21 letters
      in ascending order of the prefix (22 files): every ordered pair (a, b)
      has a history in which a is the first unit ever loaded and b is loaded
      for the first time after it;
    * neighbours: one closed walk of 442 files in which every ordered pair
      (a, b), a == b included, occurs once as two consecutive files."""
    modes = ('default', 'explicit')
    ps = X.HISTORY_PREFIXES
    for i1, p1 in enumerate(ps):
        seq = [p1] + list(ps)
        yield dict(kind='history', pos=pos, shape='first-ever',
                   steps=[[p, modes[(i1 + k) % 2]] for k, p in enumerate(seq)])
    walk = X.euler_circuit(len(ps))
    yield dict(kind='history', pos=pos, shape='neighbours',
               steps=[[ps[v], modes[(k // 2) % 2]] for k, v in enumerate(walk)])


def history_init():
    """What the pristine interpreter does before it is forked: the imports,
    and (so that not every fork pays the first-use costs of the YAML reader,
    the scheme reader and the correlation classes) one load and evaluation of
    a library file that contains NO unit text at all: non-dimensional keys
    only, no T_ref line, no table, no range."""
    import pgradd.ThermoChem    # noqa
    from pgradd.GroupAdd.Library import GroupLibrary    # noqa
    rec = records()[find(H=1.5, S=30.41, cp='none', range=None, tref=298.15)]
    text = render(rec, 'nd', 'nd', 'nd', 'explicit', 'J/mol', 'J/mol/K', 'J/mol/K', 'K',
                  8.314, omit_tref=True)
    assert ' K' not in text and 'units' not in text, text
    observe(load_files({'library.yaml': text})[GROUP]['thermochem'], rec)
    drop_scratch()


def history_child(item):
    """Runs in a forked copy of the pristine interpreter: load and judge the
    files of one history in order, up to the first that is not as it is
    alone.  -> [dict(probs=[...]) | dict(error=, etype=), ...], texts of the
    last two files."""
    rec = records()[hrec()]
    interior = item['pos'] == 'K'
    out, texts = [], []
    for p, m in item['steps']:
        pres = tuple([m] * 4 + list(W.prefix_units(item['pos'], p)))
        text = render(rec, *pres, item['R0'])
        texts = texts[-1:] + [text]
        try:
            k = load_files({'library.yaml': text}, root=item['root'])[GROUP]['thermochem']
        except Exception as e:      # noqa
            out.append(dict(error='%s: %s' % (type(e).__name__, e), etype=type(e).__name__))
            break
        probs = judge(k, rec, pres, item['R0'], item['base'], interior)
        out.append(dict(probs=probs[:2]))
        if probs:
            break
    return dict(steps=out, texts=texts)


def run_histories(R, hs):
    R0 = gas_constant()
    root = scratch()
    rec = records()[hrec()]
    base = {i: [list(o) for o in base_of(rec, R0, i)] for i in (False, True)}
    res = X.pristine_map('mc.props.c12', 'history_init', 'history_child',
                         [dict(h, R0=R0, root=root, base=base[h['pos'] == 'K']) for h in hs])
    for h, r in zip(hs, res):
        if 'crash' in r:
            R.evals += 1
            R.nontrivial += 1
            R.outcomes['history:crash'] += 1
            R.violation('history:crash', 'a load history (%s, position %s) ended with an '
                        'unexpected exception: %s' % (h['shape'], h['pos'], r['crash']), h)
            continue
        steps = r['ok']['steps']
        R.evals += len(steps)
        R.nontrivial += len(steps)
        last = steps[-1]
        bad = ('load-failed:' + last['etype'], 'could not be loaded: ' + last['error']) \
            if 'error' in last else \
            (last['probs'][0].split(' ')[0], last['probs'][0]) if last['probs'] else None
        R.outcomes['history:same'] += len(steps) - (1 if bad else 0)
        if bad is None:
            if h['shape'] == 'first-ever' and h['steps'][0][0] == 'k':
                R.sample(dict(family='load history in a pristine process', position=h['pos'],
                              steps=h['steps'], last_two_files=r['ok']['texts']), limit=1)
            continue
        R.outcomes['history:%s' % (bad[0] if 'error' in last else 'differs')] += 1
        g = len(steps) - 1
        w = dict(h, steps=h['steps'][:g + 1])
        R.violation('history:%s:%s-file' % (bad[0], 'first' if g == 0 else 'later'),
                    'in a process that has loaded no file with a unit string before, %r '
                    'is loaded %d times in a row, written with these (prefix at position '
                    '%s, mode) in turn: %r.  The last file, which loads correctly when it '
                    'is the only one (prefix family), %s\n%s' % (
                        short(rec), g + 1, h['pos'], w['steps'], bad[1],
                        '\n'.join('--- file %d\n%s' % (g + 1 - len(r['ok']['texts']) + 1 + i, x)
                                  for i, x in enumerate(r['ok']['texts']))), w)


def run_history(R, pos):
    run_histories(R, list(histories(pos)))


# ---- fifth wave: shapes of one unit expression

def run_shapes(R, idx, half):
    """One record through one half of the unit shapes (default + explicit)."""
    rec = records()[idx]
    R0 = gas_constant()
    base_obs = base_of(rec, R0)
    cases = list(Y.shape_presentations())
    mid = len(cases) // 2
    for n, (m, uH, uS, uC) in enumerate(cases):
        if (n >= mid) != bool(half):
            continue
        run_case(R, dict(kind='case', fam='shape', pool='records', record=idx,
                         pres=[m, m, m, ('default', 'explicit')[(n // 2) % 2], uH, uS, uC, 'K'],
                         interior=False), R0, base_obs)


# ---- fifth wave: YAML scalar styles of bare numbers

def style_cases(idx):
    """Every new style on all bare numbers of the file x all 54 mode
    combinations; every new style on the bare numbers of one kind x that kind
    in {default, non-dimensional} presentation, the other kinds in each of the
    three modes.  Cases in which no bare number would carry the style (an
    explicit presentation has none) are left out.  Units rotate."""
    rec = records()[idx]
    n = 0

    def units(n):
        return [H_UNITS[n % len(H_UNITS)], S_UNITS[n % 4], S_UNITS[(n // 2) % 4], T_UNITS[n % 3]]

    def styled(styles, modes):
        present = dict(H=True, S=True, C=bool(rec['table']), T=True)
        return any(present[k] and modes[k] != 'explicit' for k in styles)
    for styles in Y.style_assignments():
        if len(styles) == len(Y.KINDS):
            combos = [(mH, mS, mC, mT) for mH, mS, mC in itertools.product(MODES, repeat=3)
                      for mT in ('default', 'explicit')]
        else:
            (k,) = styles
            combos = []
            for own in (('default',) if k == 'T' else ('default', 'nd')):
                for others in MODES:
                    for oT in ('default', 'explicit'):
                        m = {q: (own if q == k else others) for q in 'HSC'}
                        combos.append((m['H'], m['S'], m['C'], own if k == 'T' else oT))
        for c in combos:
            if not styled(styles, dict(zip('HSCT', c))):
                continue
            n += 1
            yield dict(kind='case', fam='style', pool='records', record=idx,
                       pres=list(c) + units(n), interior=False, styles=dict(styles))


def run_styles(R, idx):
    rec = records()[idx]
    R0 = gas_constant()
    base_obs = base_of(rec, R0)
    for w in style_cases(idx):
        run_case(R, w, R0, base_obs)


def missing_style_cases():
    """The missing-unit clause with the orphaned bare numbers written in each
    new style: 3 records x the kind whose default unit is missing x 5 styles
    x presentation of the other kinds."""
    for idx in MISSING_RECORDS:
        for kind in MISSING_KINDS:
            if kind == 'molar heat capacity' and not records()[idx]['table']:
                continue
            for st in Y.NEW_STYLES:
                for m in MODES:
                    yield dict(kind='missing-style', record=idx, what=kind, others=m, style=st)


def run_missing_style_case(R, w):
    R0 = gas_constant()
    rec = records()[w['record']]
    kind, m = w['what'], w['others']
    mH, mS, mC = [('default' if kind == k_ else m) for k_ in MISSING_KINDS[:3]]
    mT = 'default' if kind == 'temperature' or m == 'default' else 'explicit'
    pres = (mH, mS, mC, mT, 'kcal/mol', 'cal/(mol*K)', 'cal/(mol*K)', 'K')
    styles = {'HSCT'[MISSING_KINDS.index(kind)]: w['style']}
    R.evals += 1
    R.nontrivial += 1
    control = render(rec, *pres, R0, styles=styles)
    try:
        load_files({'library.yaml': control})[GROUP]['thermochem']
    except Exception as e:      # noqa
        R.outcomes['missing-unit:style:control-not-loaded'] += 1
        R.violation('missing-unit-control-load-failed:style:%s' % type(e).__name__,
                    'the control of a missing-unit case (default unit for the %s present, '
                    'its bare numbers written as %r) could not be loaded: %s\n%s'
                    % (kind, w['style'], e, control), w)
        return
    text = render(rec, *pres, R0, drop_default=kind, styles=styles)
    try:
        load_files({'library.yaml': text})
    except Exception as e:      # noqa
        R.outcomes['missing-unit:style:rejected(%s)' % type(e).__name__] += 1
        return
    R.outcomes['missing-unit:style:accepted'] += 1
    R.violation('missing-unit-accepted:style:%s' % kind,
                'no unit is available for the %s values, which are bare numbers written '
                'as %r (the other kinds presented as %r), but the file was loaded:\n%s'
                % (kind, w['style'], m, text), w)


def run_missing_styles(R):
    for w in missing_style_cases():
        run_missing_style_case(R, w)


# ---- fifth wave: one group's data split over the files of an include tree

def score():
    """Records of the split family: the two-groups core and one record whose
    reference values are both zero."""
    return gcore() + [find(H=0.0, S=0.0, cp='four', range=(250.0, 1500.0), tref=298.15)]


def split_units(n):
    return (H_UNITS[n % len(H_UNITS)], S_UNITS[n % 4], S_UNITS[(n // 2) % 4], T_UNITS[n % 3])


def split_cases(si):
    """Two files: every split x all 9 pairs of value modes (the values of one
    file move together) ; temperature modes, the units of each file and - for
    a 298.15 K record - which of the files omit the T_ref line rotate."""
    idx = score()[si]
    rec = records()[idx]
    n = 0
    for a, b in Y.two_file_splits(rec):
        for mA, mB in itertools.product(MODES, repeat=2):
            n += 1
            omit = [bool(n & 1), bool(n & 2)] if rec['tref'] == 298.15 else [False, False]
            yield dict(kind='split', tree='two', record=idx, parts=[a, b], omit=omit,
                       pres=[[mA] * 3 + [('default', 'explicit')[n % 2]] + list(split_units(n)),
                             [mB] * 3 + [('default', 'explicit')[(n // 2) % 2]] +
                             list(split_units(n + 1))])


SPLIT3_MODES = [(m, m, m) for m in MODES] + [tuple(MODES[(i + j) % 3] for j in range(3))
                                             for i in range(3)]


def split3_cases(si):
    """Three files (chain and fan): H, S and the rest in different files, all
    6 assignments x 6 triples of value modes (all alike, all different)."""
    idx = score()[si]
    rec = records()[idx]
    n = 0
    for tree, parts in Y.three_file_splits(rec):
        for ms in SPLIT3_MODES:
            n += 1
            omit = [bool((n + i) % 3 == 0) and rec['tref'] == 298.15 for i in range(3)]
            yield dict(kind='split', tree=tree, record=idx, parts=parts, omit=omit,
                       pres=[[m] * 3 + [('default', 'explicit')[(n + i) % 2]] +
                             list(split_units(n + i)) for i, m in enumerate(ms)])


def run_split_case(R, w):
    R0 = gas_constant()
    rec = records()[w['record']]
    press = [tuple(p) for p in w['pres']]
    texts = [render(Y.part(rec, ps), *p, R0, omit_tref=o)
             for ps, p, o in zip(w['parts'], press, w['omit'])]
    files = Y.lay_split(w['tree'], texts)
    shown = '\n'.join('--- %s\n%s' % (p, files[p]) for p in sorted(files))
    zero_inc = any((p == 'H' and rec['H'] == 0) or (p == 'S' and rec['S'] == 0)
                   for ps in w['parts'][1:] for p in ps)
    where = 'zero-in-included-file' if zero_inc else 'other'
    R.evals += 1
    R.nontrivial += 1
    try:
        k = load_files(files)[GROUP]['thermochem']
    except Exception as e:      # noqa
        R.outcomes['split:load-failed:' + type(e).__name__] += 1
        R.violation('split:load-failed:%s:%s' % (type(e).__name__, where),
                    '%r with its pieces %r in the files (loaded file, included ...; tree %r), '
                    'presented as %r (T_ref line omitted: %r), could not be loaded: %s\n%s'
                    % (short(rec), w['parts'], w['tree'], press, w['omit'], e, shown), w)
        return
    probs = judge(k, rec, max(press, key=tol_of), R0, base_cached(w['record'], R0))
    R.outcomes['split:%s' % ('same' if not probs else 'differs')] += 1
    if probs:
        R.violation('split:%s:%s' % (probs[0].split(' ')[0], where),
                    '%r with its pieces %r in the files (loaded file, included ...; tree %r), '
                    'presented as %r (T_ref line omitted: %r): %s\n%s'
                    % (short(rec), w['parts'], w['tree'], press, w['omit'], probs[0], shown), w)
    elif w['tree'] == 'chain' and press[0][0] == 'default' and press[1][0] == 'explicit':
        R.sample(dict(family='split', files=files), limit=1)


def run_split(R, si, three):
    for w in (split3_cases(si) if three else split_cases(si)):
        run_split_case(R, w)


CORE = None


def core_records():
    rs = records()
    out = []
    for i, r in enumerate(rs):
        if r['tref'] == 298.15 and r['range'] and r['cp'] in ('three-with-zero',):
            out.append(i)
    return out


def shards(tier, seed):
    out = [('rec', i) for i in range(len(records()))]
    out.append(('missing',))
    fam_recs = list(ucore())
    if tier == 'thorough':
        for i in core_records():
            out.append(('full', i))
        fam_recs += [i for i in core_records() if i not in fam_recs]
    for i in fam_recs:
        out.append(('units', i))
        for pos in W.PREFIX_POSITIONS:
            out.append(('prefix', i, pos))
    for i in range(len(mag_records())):
        out.append(('mag', i))
    for a in range(len(gcore())):
        out.append(('multi', a))
    for i in fam_recs:
        for si in range(len(X.NEW_SPELLINGS)):
            out.append(('spelling', i, si))
    for layout in ('self',) + X.LAYOUTS:
        out.append(('layout', layout))
    for i in fam_recs:
        out.append(('shape', i, 0))
        out.append(('shape', i, 1))
        out.append(('style', i))
    out.append(('missing-style',))
    for si in range(len(score())):
        out.append(('split', si, 0))
        out.append(('split', si, 1))
    # each starts an interpreter of its own: spread, not at the ends of the list
    for n, pos in enumerate(X.HISTORY_POSITIONS):
        out.insert(30 + 25 * n, ('history', pos))
    return out


def run_shard(shard, tier):
    try:
        return _run_shard(shard, tier)
    finally:
        drop_scratch()


def _run_shard(shard, tier):
    R = Result()
    if shard[0] == 'rec':
        run_record(R, shard[1], tier)
        run_default_tref(R, shard[1])
    elif shard[0] == 'full':
        run_record(R, shard[1], tier, full=True)
    elif shard[0] == 'units':
        run_family(R, 'units', 'records', shard[1])
    elif shard[0] == 'prefix':
        run_family(R, 'prefix', 'records', shard[1], shard[2])
    elif shard[0] == 'mag':
        run_family(R, 'magnitude', 'mag', shard[1])
    elif shard[0] == 'multi':
        run_multi(R, shard[1])
    elif shard[0] == 'spelling':
        run_spelling(R, shard[1], shard[2])
    elif shard[0] == 'layout':
        run_layout(R, shard[1])
    elif shard[0] == 'history':
        run_history(R, shard[1])
    elif shard[0] == 'shape':
        run_shapes(R, shard[1], shard[2])
    elif shard[0] == 'style':
        run_styles(R, shard[1])
    elif shard[0] == 'missing-style':
        run_missing_styles(R)
    elif shard[0] == 'split':
        run_split(R, shard[1], shard[2])
    else:
        run_missing(R)
    return R


def replay(w):
    R = Result()
    if w['kind'] == 'pres':
        run_record(R, w['record'], 'thorough', full=True, only=w['pres'])
        if not R.evals:
            run_record(R, w['record'], 'quick', only=w['pres'])
    elif w['kind'] == 'missing':
        run_missing(R)
    elif w['kind'] == 'tref-default':
        run_default_tref(R, w['record'], only=w['pres'])
    elif w['kind'] == 'case':
        run_case(R, w)
    elif w['kind'] == 'multi':
        run_multi_case(R, w)
    elif w['kind'] == 'layout':
        run_layout_case(R, w)
    elif w['kind'] == 'missing-layout':
        run_missing_layout_case(R, w)
    elif w['kind'] == 'history':
        run_histories(R, [w])
    elif w['kind'] == 'missing-style':
        run_missing_style_case(R, w)
    elif w['kind'] == 'split':
        run_split_case(R, w)
    drop_scratch()
    return dict(violates=bool(R.violations),
                detail='\n'.join(v['msg'] for v in R.violations[:3]) or 'holds')
