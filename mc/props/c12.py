"""C12 - loading a library does not depend on the units its data use.

Records: H in {0, -10.2, 1.5} kcal/mol, S in {0, 30.41} cal/mol/K, Cp table in
{none, 1 point, 3 points with a zero value, 4 points}, range {absent,
present}, T_ref {298.15, 300} K: 96 records.  Presentations: for each of H, S,
Cp independently {file-level default unit, explicit unit string,
non-dimensional key}, temperatures {default unit, explicit unit}; units rotate
through the alphabets (quick) or take the full product (thorough, on a
6-record core).  Every file is written to disk and loaded with
GroupLibrary.Load.
"""
import itertools
import os
import tempfile

from ..runner import Result
from ..domains import estimates as E

TWO_HASH_SEEDS = ('quick', 'thorough')   # tiers in which the space is walked under a second PYTHONHASHSEED
LEVEL = 'exploration'
H_UNITS = ['kcal/mol', 'kJ/mol', 'J/mol', 'cal/mol', 'eV/molecule', 'daJ/mol']
S_UNITS = ['cal/(mol*K)', 'J/mol/K', 'kJ/(mol K)', 'cal/mol/K']
T_UNITS = ['K', 'kK', 'mK']
# my own factors to SI (J/mol, J/mol/K, K)
NA = 6.02214076e23
H_FACT = {'kcal/mol': 4184.0, 'kJ/mol': 1e3, 'J/mol': 1.0, 'cal/mol': 4.184,
          'eV/molecule': 1.602176634e-19 * NA, 'daJ/mol': 10.0}
S_FACT = {'cal/(mol*K)': 4.184, 'J/mol/K': 1.0, 'kJ/(mol K)': 1e3, 'cal/mol/K': 4.184}
T_FACT = {'K': 1.0, 'kK': 1e3, 'mK': 1e-3}
MODES = ['default', 'explicit', 'nd']
SCHEME = E.SCHEME
GROUP = 'C(C)(H)3'
BOUND = {'quick': '96 records x 54 mode combinations (3 modes for each of H, S, Cp '
                  'x 2 temperature modes), units rotating through 6 enthalpy, 4 '
                  'entropy/heat-capacity and 3 temperature units; 4 missing-unit '
                  'files per record class; every 298.15 K record also without a '
                  'T_ref line (54 mode combinations)',
         'thorough': 'additionally the full product of modes and units for a '
                     '6-record core (every zero/non-zero combination)'}
RULE = ('every presentation of every record is loaded; its reference values, '
        'table, range and reference temperature are compared with the record '
        'converted by the harness\'s own unit factors (1e-9; 1e-6 where eV per '
        'molecule is involved) and its getters with those of the '
        'non-dimensional presentation on a temperature grid; every value must '
        'be a plain float.  Non-trivial = at least one value uses a default or '
        'explicit unit, or is zero')
ASSUMPTIONS = ['the gas constant used for non-dimensionalisation is the '
               'library\'s own (pgradd.Consts), required to lie within 1e-5 of '
               '8.31446 J/mol/K',
               'eV/molecule depends on CODATA vintage: tolerance 1e-6 there']
MANIFEST = dict(
    technique='exhaustive enumeration of records x unit presentations loaded '
              'from generated files, differential against the non-dimensional '
              'presentation and an own unit conversion',
    text='The same group record written with file-level default units, '
         'explicit unit strings (several compatible units and prefixes) or '
         'non-dimensional keys, independently for enthalpy, entropy, heat '
         'capacity and temperature, must load to the same correlation with '
         'plain-number fields and getters, zero values included; a '
         'dimensional value without any available unit must be rejected.',
    note='Values come from a small alphabet including zero and negative '
         'numbers; mixed units inside one Cp table are exercised through '
         'per-point explicit units.',
    ref='5/C12')


def records():
    out = []
    for H in (0.0, -10.2, 1.5):
        for S in (0.0, 30.41):
            for cp in ('none', 'one', 'three-with-zero', 'four'):
                for rng in (False, True):
                    for tref in (298.15, 300.0):
                        table = {'none': [], 'one': [(tref, 6.19)],
                                 'three-with-zero': [(280.0, 6.19), (400.0, 0.0), (500.0, 9.4)],
                                 'four': [(280.0, 6.19), (400.0, 7.84), (500.0, 9.4),
                                          (800.0, 13.02)]}[cp]
                        out.append(dict(H=H, S=S, cp=cp, table=table,
                                        range=(250.0, 1500.0) if rng else None,
                                        tref=tref))
    return out


def gas_constant():
    from pgradd.Consts import GAS_CONSTANT
    return float(GAS_CONSTANT.in_units('J/(mol K)'))


def num(x):
    return repr(float(x))


def render(rec, mH, mS, mC, mT, uH, uS, uC, uT, R0, drop_default=None,
           omit_tref=False):
    """-> YAML text.  m* in MODES (mT in default/explicit)."""
    units = {}

    def temp(T):
        v = T / T_FACT[uT]
        if mT == 'default':
            units['temperature'] = uT
            return num(v)
        return '%s %s' % (num(v), uT)
    lines = []
    if not omit_tref:
        lines.append('      T_ref: %s' % temp(rec['tref']))
    Hj = rec['H'] * 4184.0
    Sj = rec['S'] * 4.184
    if mH == 'nd':
        lines.append('      ND_H_ref: %s' % num(Hj / (R0 * rec['tref'])))
    else:
        v = Hj / H_FACT[uH]
        if mH == 'default':
            units['molar enthalpy'] = uH
            lines.append('      H_ref: %s' % num(v))
        else:
            lines.append('      H_ref: %s %s' % (num(v), uH))
    if mS == 'nd':
        lines.append('      ND_S_ref: %s' % num(Sj / R0))
    else:
        v = Sj / S_FACT[uS]
        if mS == 'default':
            units['molar entropy'] = uS
            lines.append('      S_ref: %s' % num(v))
        else:
            lines.append('      S_ref: %s %s' % (num(v), uS))
    if rec['table']:
        lines.append('      %s:' % ('ND_Cp_data' if mC == 'nd' else 'Cp_data'))
        for k, (T, cp) in enumerate(rec['table']):
            cj = cp * 4.184
            if mC == 'nd':
                lines.append('        - [%s, %s]' % (temp(T), num(cj / R0)))
            elif mC == 'default':
                units['molar heat capacity'] = uC
                lines.append('        - [%s, %s]' % (temp(T), num(cj / S_FACT[uC])))
            else:
                # explicit: rotate the unit from point to point
                u = S_UNITS[(S_UNITS.index(uC) + k) % len(S_UNITS)]
                lines.append('        - [%s, %s %s]' % (temp(T), num(cj / S_FACT[u]), u))
    if rec['range']:
        lines.append('      range: [%s, %s]' % (temp(rec['range'][0]), temp(rec['range'][1])))
    if drop_default:
        units.pop(drop_default, None)
    head = []
    if units:
        head.append('units:')
        for k in sorted(units):
            head.append('  %s: %s' % (k, units[k]))
    head += ['groups:', "  '%s':" % GROUP, '    thermochem:']
    return '\n'.join(head + lines) + '\n'


def load_text(text):
    import pgradd.ThermoChem    # noqa
    from pgradd.GroupAdd.Library import GroupLibrary
    with tempfile.TemporaryDirectory(prefix='pgv_c12_') as d:
        with open(os.path.join(d, 'scheme.yaml'), 'w') as f:
            f.write(SCHEME)
        with open(os.path.join(d, 'library.yaml'), 'w') as f:
            f.write(text)
        return GroupLibrary.Load(os.path.join(d, 'library.yaml'))


def plain(v):
    import numpy as np
    return isinstance(v, (float, int, np.floating, np.integer)) and not isinstance(v, bool)


def fields(k):
    rng = k.get_range()
    return dict(H=k.ND_H_ref, S=k.ND_S_ref,
                Cp=sorted((T, v) for T, v in k.ND_Cp_data.items()),
                range=None if rng is None else tuple(rng), tref=k.T_ref)


def observe(k, rec):
    if not rec['range'] and len(rec['table']) == 1:
        # zero-width valid interval: whether T lies "inside" is decided by the
        # last bit of a unit conversion - only the fields are compared
        return []
    temps = sorted({rec['tref']} | {T for T, _ in rec['table']} |
                   ({rec['range'][0], rec['range'][1]} if rec['range'] else set()))
    out = []
    for T in temps:
        for p in ('get_CpoR', 'get_HoRT', 'get_SoR'):
            out.append(E.ev(getattr(k, p), T)[:2])
    return out


def check(R, rec, pres, R0, base_obs, wit):
    mH, mS, mC, mT, uH, uS, uC, uT = pres
    text = render(rec, mH, mS, mC, mT, uH, uS, uC, uT, R0)
    R.evals += 1
    if (mH, mS, mC) != ('nd', 'nd', 'nd') or rec['H'] == 0 or rec['S'] == 0:
        R.nontrivial += 1
    tol = 1e-6 if (uH == 'eV/molecule' and mH != 'nd') else 1e-9
    try:
        lib = load_text(text)
        k = lib[GROUP]['thermochem']
    except Exception as e:      # noqa
        R.outcomes['load-failed:' + type(e).__name__] += 1
        R.violation('load-failed:%s:%s' % (type(e).__name__, zero_tag(rec)),
                    'a valid presentation %r of %r could not be loaded: %s\n%s'
                    % (pres, short(rec), e, text), wit)
        return
    f = fields(k)
    want = dict(H=rec['H'] * 4184.0 / (R0 * rec['tref']), S=rec['S'] * 4.184 / R0,
                Cp=[(T, cp * 4.184 / R0) for T, cp in rec['table']],
                range=rec['range'], tref=rec['tref'])
    probs = []

    def close(a, b, t=tol):
        return plain(a) and abs(float(a) - b) <= t * max(1.0, abs(b))
    for key in ('H', 'S', 'tref'):
        if not plain(f[key]):
            probs.append('%s is a %s (%r), not a plain number' % (key, type(f[key]).__name__, f[key]))
        elif not close(f[key], want[key], tol if key != 'tref' else 1e-9):
            probs.append('%s loads as %r, expected %r' % (key, f[key], want[key]))
    if len(f['Cp']) != len(want['Cp']):
        probs.append('Cp table has %d points, expected %d' % (len(f['Cp']), len(want['Cp'])))
    else:
        for (T, v), (T2, v2) in zip(f['Cp'], want['Cp']):
            if not plain(T) or not plain(v):
                probs.append('Cp point (%r, %r) is not made of plain numbers' % (T, v))
            elif not close(T, T2) or not close(v, v2):
                probs.append('Cp point loads as (%r, %r), expected (%r, %r)' % (T, v, T2, v2))
    if (f['range'] is None) != (want['range'] is None) or (
            f['range'] is not None and not (close(f['range'][0], want['range'][0]) and
                                            close(f['range'][1], want['range'][1]))):
        probs.append('range loads as %r, expected %r' % (f['range'], want['range']))
    if not probs:
        obs = observe(k, rec)
        for a, b in zip(obs, base_obs):
            if a[0] != b[0]:
                probs.append('getter outcome %r vs non-dimensional presentation %r' % (a, b))
                break
            if a[0] == 'ok':
                if not plain(a[1]):
                    probs.append('getter returns %r (%s)' % (a[1], type(a[1]).__name__))
                    break
                if abs(float(a[1]) - float(b[1])) > tol * max(1.0, abs(float(b[1]))):
                    probs.append('getter gives %r, non-dimensional presentation %r' % (a[1], b[1]))
                    break
    R.outcomes['same' if not probs else 'differs'] += 1
    if probs:
        R.violation('presentation:%s:%s' % (probs[0].split(' ')[0], zero_tag(rec)),
                    '%r presented as %r: %s' % (short(rec), pres, probs[0]), wit)
    elif (mH, mS, mC) == ('default', 'explicit', 'nd'):
        R.sample(dict(record=short(rec), presentation=list(pres), file=text), limit=1)


def zero_tag(rec):
    z = [k for k in ('H', 'S') if rec[k] == 0] + (
        ['Cp'] if any(v == 0 for _, v in rec['table']) else [])
    return 'zero-' + '+'.join(z) if z else 'nonzero'


def short(rec):
    return dict(H=rec['H'], S=rec['S'], cp=rec['cp'], range=bool(rec['range']),
                tref=rec['tref'])


def presentations_rotating(i):
    n = 0
    for mH, mS, mC in itertools.product(MODES, repeat=3):
        for mT in ('default', 'explicit'):
            k = i + n
            yield (mH, mS, mC, mT, H_UNITS[k % len(H_UNITS)], S_UNITS[(k // 2) % 4],
                   S_UNITS[(k // 3) % 4], T_UNITS[k % 3])
            n += 1


def presentations_full():
    for mH, mS, mC in itertools.product(MODES, repeat=3):
        for mT in ('default', 'explicit'):
            for uH in (H_UNITS if mH != 'nd' else H_UNITS[:1]):
                for uS in (S_UNITS if mS != 'nd' else S_UNITS[:1]):
                    for uC in (S_UNITS if mC != 'nd' else S_UNITS[:1]):
                        for uT in T_UNITS:
                            yield (mH, mS, mC, mT, uH, uS, uC, uT)


def run_record(R, idx, tier, full=False, only=None):
    rec = records()[idx]
    R0 = gas_constant()
    if abs(R0 - 8.31446) > 1e-4:
        R.violation('gas-constant', 'library gas constant is %r J/mol/K' % R0,
                    dict(kind='const'))
    base_text = render(rec, 'nd', 'nd', 'nd', 'explicit', 'J/mol', 'J/mol/K', 'J/mol/K', 'K', R0)
    base = load_text(base_text)[GROUP]['thermochem']
    base_obs = observe(base, rec)
    pres = presentations_full() if full else presentations_rotating(idx)
    for p in pres:
        if only is not None and list(p) != only:
            continue
        check(R, rec, p, R0, base_obs, dict(kind='pres', record=idx, pres=list(p)))


def run_default_tref(R, idx, only=None):
    """Records whose T_ref is the documented default (298.15 K) written
    WITHOUT a T_ref line, in every mode combination."""
    rec = records()[idx]
    if rec['tref'] != 298.15:
        return
    if not rec['range'] and len(rec['table']) == 1:
        return      # zero-width valid interval (see observe())
    R0 = gas_constant()
    base = load_text(render(rec, 'nd', 'nd', 'nd', 'explicit', 'J/mol', 'J/mol/K',
                            'J/mol/K', 'K', R0))[GROUP]['thermochem']
    base_obs = observe(base, rec)
    for n, (mH, mS, mC) in enumerate(itertools.product(MODES, repeat=3)):
        for mT in ('default', 'explicit'):
            pres = (mH, mS, mC, mT, H_UNITS[n % len(H_UNITS)], S_UNITS[n % 4],
                    S_UNITS[(n + 1) % 4], T_UNITS[n % 3])
            if only is not None and list(pres) != only:
                continue
            text = render(rec, *pres, R0, omit_tref=True)
            R.evals += 1
            R.nontrivial += 1
            wit = dict(kind='tref-default', record=idx, pres=list(pres))
            try:
                k = load_text(text)[GROUP]['thermochem']
            except Exception as e:      # noqa
                R.outcomes['default-T_ref:load-failed'] += 1
                R.violation('default-T_ref:load-failed:%s' % type(e).__name__,
                            '%r without a T_ref line (default 298.15 K), presented as %r, '
                            'cannot be loaded: %s\n%s' % (short(rec), pres, e, text), wit)
                continue
            obs = observe(k, rec)
            bad = abs(float(k.T_ref) - 298.15) > 1e-9 or any(
                a[0] != b[0] or (a[0] == 'ok' and abs(float(a[1]) - float(b[1])) >
                                 (1e-6 if pres[4] == 'eV/molecule' and mH != 'nd' else 1e-9)
                                 * max(1.0, abs(float(b[1]))))
                for a, b in zip(obs, base_obs))
            R.outcomes['default-T_ref:%s' % ('differs' if bad else 'same')] += 1
            if bad:
                R.violation('default-T_ref:differs', '%r without a T_ref line, presented '
                            'as %r: T_ref=%r, getters %r vs %r' % (
                                short(rec), pres, k.T_ref, obs[:3], base_obs[:3]), wit)


def run_missing(R):
    """A dimensional value with no unit available must be rejected."""
    R0 = gas_constant()
    for idx in (29, 77):         # one record with, one without a range
        rec = records()[idx]
        for kind in ('molar enthalpy', 'molar entropy', 'molar heat capacity',
                     'temperature'):
            if kind == 'molar heat capacity' and not rec['table']:
                continue
            text = render(rec, 'default', 'default', 'default', 'default',
                          'kcal/mol', 'cal/(mol*K)', 'cal/(mol*K)', 'K', R0,
                          drop_default=kind)
            R.evals += 1
            R.nontrivial += 1
            try:
                load_text(text)
                R.outcomes['missing-unit:accepted'] += 1
                R.violation('missing-unit-accepted:' + kind,
                            'no unit is available for the %s values but the file '
                            'was loaded:\n%s' % (kind, text),
                            dict(kind='missing', record=idx, what=kind))
            except Exception as e:      # noqa
                R.outcomes['missing-unit:rejected(%s)' % type(e).__name__] += 1


CORE = None


def core_records():
    rs = records()
    out = []
    for i, r in enumerate(rs):
        if r['tref'] == 298.15 and r['range'] and r['cp'] in ('three-with-zero',):
            out.append(i)
    return out


def shards(tier, seed):
    out = [('rec', i) for i in range(len(records()))]
    out.append(('missing',))
    if tier == 'thorough':
        for i in core_records():
            out.append(('full', i))
    return out


def run_shard(shard, tier):
    R = Result()
    if shard[0] == 'rec':
        run_record(R, shard[1], tier)
        run_default_tref(R, shard[1])
    elif shard[0] == 'full':
        run_record(R, shard[1], tier, full=True)
    else:
        run_missing(R)
    return R


def replay(w):
    R = Result()
    if w['kind'] == 'pres':
        run_record(R, w['record'], 'thorough', full=True, only=w['pres'])
        if not R.evals:
            run_record(R, w['record'], 'quick', only=w['pres'])
    elif w['kind'] == 'missing':
        run_missing(R)
    elif w['kind'] == 'tref-default':
        run_default_tref(R, w['record'], only=w['pres'])
    return dict(violates=bool(R.violations),
                detail='\n'.join(v['msg'] for v in R.violations[:3]) or 'holds')
