"""C11 - incompatible quantities never combine; compatible ones act as numbers.

Space  : all ordered pairs of operand shapes (7 base dimensions, 6 derived,
         one fractional exponent, a plain non-zero number, a bare zero) x all
         ordered pairs of magnitudes from {-2, 0, 1.5, 3, 3(1+1e-12), 1e-20}
         (equal, nearly equal and tiny values included) x operand forms {scalar, array, array with a zero element}
         x the operations == != < <= > >= + - * / and, per operand, unary -,
         abs, ** {2, 0, 0.5, -1}, in_units to every shape.
         Third wave: the magnitude alphabet also holds nan and +inf (thorough:
         and -inf) everywhere it is used; and a LATTICE of fractional-exponent
         dimensions m^a s^b (a, b in quarter/half steps, see
         domains/w3_c11.py; 30 dimensions in quick, 55 in thorough): all ordered
         pairs of lattice dimensions (first operand made from unit text, second
         by arithmetic on the base units) x magnitudes {1.5, 3}^2 x forms
         {scalar, array}^2 x the ten binary operations, and per lattice
         dimension (both construction routes) unary -, abs, the four powers
         and in_units to every lattice dimension.
         Fourth wave: BUNDLES - the list-of-quantities constructor
         ArrayQuantity([q1, q2, ...], units=...) as a further way in which
         quantities are combined (domains/w4_c11.py): every list of length
         1..2 over {6 dimensions (thorough 14) x magnitudes {0.0, -0.0, 3, -2,
         1e-20 (thorough: nan, inf, 1e300)}, bare 0, bare 0.0, plain 2.5} and
         every list of length 3 (thorough: and 4) over {dimensions x {0.0, 3},
         bare 0}, each x units= {absent, every dimension}; every accepted
         bundle is read back element by element, converted to every dimension
         and added to a unit quantity of every dimension.
         Fifth wave (domains/w5_c11.py): POWER LADDERS - for each of the 14
         named shapes every chain r = stage(q) ** k with stage one of
         q**(1/n) (n = 2..50, thorough 2..128), (q**a)*(q**b), (q**a)/(q**b)
         (a, b in tenths 0.1..0.9) and k every integer (root: 1..2n, tenths:
         1..10, thorough 1..40) for which the exact exponents are integers,
         k presented as int, -int, float (thorough: -float, numpy.int64,
         numpy.float64); r is then combined under the ten binary operations
         with an ordinary quantity of the landing dimension made from unit
         text (thorough: both operand orders, array form), converted to the
         landing and to another dimension, and added to a quantity of
         another dimension.  UNIT NAMES - operands spelled in every name of
         the reference units table (37 names, 18 dimensions: ft, in, hp, lbf,
         psi, BTU, eV, molecule ...): all ordered pairs of names x SI
         magnitude pairs {(1.5, 3), (3, 1.5), and (3, 3) where exact} x forms
         {scalar, array}^2 x the ten binary operations; and every bare or
         SI-prefixed spelling (775) against every bare name: conversion both
         ways, +, <.
Oracle : the same operation on (SI magnitude, exponent vector) pairs; IEEE
         semantics for nan/inf (a result that must be nan is nan).  Bundles:
         non-zero quantities of two dimensions (or of a dimension other than
         units=) must raise the units error; an accepted bundle has the
         dimension of its non-zero elements and their SI magnitudes.
         Ladders: exponents by exact Fractions (the landing dimension is an
         integer vector), magnitude by the same float operations.  Unit
         names: (SI factor, exponents) from mc/models/unitsref.py, own name
         before prefix; magnitudes to 1e-6 relative.
"""
import itertools
import operator

from ..runner import Result
from ..domains import w3_c11 as W3
from ..domains import w4_c11 as W4
from ..domains import w5_c11 as W5

LEVEL = 'exploration'
SHAPES = ['m', 'kg', 's', 'A', 'K', 'mol', 'cd', 'N', 'J', 'Pa', 'J/mol',
          'J/(mol K)', '1/K', 'm^0.5', '#number', '#zero']
# exponents over m kg s A K mol cd
EXPS = {'m': (1, 0, 0, 0, 0, 0, 0), 'kg': (0, 1, 0, 0, 0, 0, 0),
        's': (0, 0, 1, 0, 0, 0, 0), 'A': (0, 0, 0, 1, 0, 0, 0),
        'K': (0, 0, 0, 0, 1, 0, 0), 'mol': (0, 0, 0, 0, 0, 1, 0),
        'cd': (0, 0, 0, 0, 0, 0, 1), 'N': (1, 1, -2, 0, 0, 0, 0),
        'J': (2, 1, -2, 0, 0, 0, 0), 'Pa': (-1, 1, -2, 0, 0, 0, 0),
        'J/mol': (2, 1, -2, 0, 0, -1, 0), 'J/(mol K)': (2, 1, -2, 0, -1, -1, 0),
        '1/K': (0, 0, 0, 0, -1, 0, 0), 'm^0.5': (0.5, 0, 0, 0, 0, 0, 0)}
NULL = (0, 0, 0, 0, 0, 0, 0)
MAGS = [-2.0, 0.0, 1.5, 3.0, 3.0 * (1 + 1e-12), 1e-20]
# third wave: non-finite magnitudes, appended everywhere MAGS is used
MAGS_TIER = {t: MAGS + W3.NONFINITE[t] for t in ('quick', 'thorough')}
FORMS = ['scalar', 'array', 'array0']
# third wave: lattice of fractional-exponent dimensions (name -> exponents,
# name -> factors for the arithmetic construction route); quick is a subset
# of thorough, so the thorough tables serve replay of either tier
LATTICE = {t: [n for n, _, _ in W3.lattice(t)] for t in ('quick', 'thorough')}
LAT_EXPS = dict((n, e) for n, e, _ in W3.lattice('thorough'))
LAT_FACTORS = dict((n, f) for n, _, f in W3.lattice('thorough'))
assert set(LATTICE['quick']) <= set(LATTICE['thorough'])
assert W4.ALL_DIMS == [x for x in SHAPES if not x.startswith('#')]
BINOPS = [('==', operator.eq), ('!=', operator.ne), ('<', operator.lt),
          ('<=', operator.le), ('>', operator.gt), ('>=', operator.ge),
          ('+', operator.add), ('-', operator.sub), ('*', operator.mul),
          ('/', operator.truediv)]
POWS = [2, 0, 0.5, -1]
BOUND = {t: '%d shapes^2 x %d magnitudes^2 (incl. %s) x %d forms^2 x %d binary '
            'operations; unary -, abs, 4 powers and conversion to every shape '
            'per operand; lattice of %d fractional-exponent dimensions m^a s^b: '
            'all ordered pairs (unit text vs base-unit arithmetic) x %d '
            'magnitudes^2 x %d forms^2 x %d binary operations, and per lattice '
            'dimension x 2 construction routes x %d magnitudes x %d forms: '
            'unary -, abs, 4 powers, conversion to every lattice dimension; '
            'bundles ArrayQuantity([...], units=): %d lists (length 1..2 over '
            '%d element tokens, length %s over %d) x %d units= choices = %d '
            'constructor calls, every accepted bundle x (each element read '
            'back, conversion to and addition of a unit quantity of each of '
            '%d dimensions); power ladders: %d shapes x stages {q**(1/n), n = '
            '2..%d; (q**a)*(q**b) and (q**a)/(q**b), a, b in tenths} x every '
            'integer k (<= 2n resp. <= %d) landing on an integer dimension x %d '
            'presentations of k (%s) x %d forms = %d chains, each x (the power, '
            '%d binary operations x %d operand orders against a quantity of the '
            'landing dimension, 2 conversions, 1 addition across dimensions); '
            'unit names: %d names^2 x SI magnitude pairs (%d name-magnitude '
            'pairs) x %d forms^2 x %d binary operations; %d spellings (names x '
            '{no prefix, %d SI prefixes}) x %d bare names x {conversion both '
            'ways, +, <}'
            % (len(SHAPES), len(MAGS_TIER[t]),
               ', '.join(repr(x) for x in W3.NONFINITE[t]), len(FORMS),
               len(BINOPS), len(LATTICE[t]), len(W3.LATTICE_MAGS),
               len(W3.LATTICE_FORMS), len(BINOPS), len(MAGS_TIER[t]), len(FORMS),
               W4.count(t)[0], len(W4.alphabet(t, 'full')),
               '3' if t == 'quick' else '3 (and 4 over the 6 quick dimensions)',
               len(W4.alphabet(t, 'small3')), len(W4.kwargs_of(t)),
               W4.count(t)[1], len(W4.DIMS[t]),
               len(EXPS), W5.NROOT[t], W5.KTEN[t], len(W5.KPRES[t]),
               ', '.join(W5.KPRES[t]), len(W5.LADDER_FORMS[t]),
               W5.ladder_count(t, list(EXPS.values()))[1], len(BINOPS),
               len(W5.LADDER_ORDERS[t]),
               len(W5.NAMES), W5.names_count(), len(W5.NAME_FORMS), len(BINOPS),
               len(W5.spelled()), len(W5.PREFIXES), len(W5.NAMES))
         for t in ('quick', 'thorough')}
RULE = ('full product of the stated operand alphabets; a case is non-trivial '
        'when the two operands have different dimensions, or one is a plain '
        'number, or the magnitudes are equal / zero / negative / non-finite '
        '(the shortcuts visible in the guards); every lattice case is '
        'non-trivial (two different fractional dimensions must be refused, '
        'one dimension built by two routes must be accepted); a bundle case '
        'is non-trivial when the list (with units=) names more than one '
        'dimension or holds a zero-valued, bare, plain or non-finite element; '
        'cases the statement leaves open (a zero-VALUED '
        'quantity of another dimension, division by zero, exponentiation by a '
        'quantity, fractional power of a negative value, a list without any '
        'quantity) are counted, not judged; a bundle with a zero-valued '
        'quantity of another dimension may be refused or accepted, but an '
        'accepted one is judged (dimension of the non-zero elements); every '
        'ladder case is non-trivial (the float exponents of the chain do not '
        'multiply out exactly; about a fifth of the chains are an ulp off the '
        'integer before any rounding); ladder chains whose exact landing '
        'dimension is fractional are not enumerated; every unit-name case is '
        'non-trivial (a name other than the coherent SI unit, or a spelling '
        'that parses both as a name and as prefix + name)')
ASSUMPTIONS = ['numpy broadcasting semantics for array operands',
               'IEEE-754 semantics of Python floats / numpy for nan and inf '
               'define "the same operation on the SI magnitudes"; two nan '
               'results count as agreeing',
               'lattice exponents are multiples of 1/8, exact in binary '
               'floating point, so equality of dimensions is exact for them',
               'the internal SI representation (value, exponent vector) is '
               'read through .value/.units.exps (._units for arrays)',
               'the bundle constructor keeps no state between calls (each '
               'list is one case; a witness is one list + units= + the probe)',
               'a plain non-zero number next to a quantity in a bundle may be '
               'refused with UnitsError, TypeError or ValueError (the statement '
               'names the units error only for operators and conversion)',
               'power ladders: an exponent that is an integer in exact '
               'rational arithmetic IS that integer (the implementation '
               'documents a 1e-7 snap; the chains are at most a few ulp off); '
               'the magnitude of a chain is the same float operations on the '
               'number, compared to 1e-11 relative',
               'unit names: the definitions of mc/models/unitsref.py (SI / '
               'customary, CODATA vintage of eV, u, molecule differs from the '
               'implementation by < 2e-7) and its resolution rule (own name, '
               'then one-letter prefix, then da); magnitudes in this family '
               'are compared to 1e-6 relative and are never nearly equal '
               'across two different names',
               'eval_qty keeps no state between calls that matters here (a '
               'ladder / unit-name witness is one case; histories of the units '
               'database are the subject of C10 / C12 / C15)']
MANIFEST = dict(
    technique='exhaustive product of operand shapes x magnitudes x forms x '
              'operations vs arithmetic on (SI magnitude, exponent vector)',
    text='All ordered pairs over 16 operand shapes x 8 magnitudes (equal, '
         'nearly equal, tiny, zero, negative, nan, inf) x 3 forms '
         'under the ten binary operators (so both operand orders and the '
         'reflected methods are exercised), plus unary operations, powers and '
         'conversions, are compared with a reference that works on (SI '
         'magnitude, exponent vector) pairs. A lattice of 30 fractional-'
         'exponent dimensions m^a s^b (55 in thorough) is enumerated in all '
         'ordered pairs, one operand built from unit text and the other by '
         'arithmetic on base units, under the same operators, powers and '
         'conversions. The list-of-quantities constructor ArrayQuantity([...], '
         'units=) is enumerated over all lists of length <= 2 of a 33-token '
         'element alphabet (6 dimensions x 5 magnitudes incl. 0.0, -0.0, '
         '1e-20; bare 0 / 0.0; plain 2.5) and all lists of length 3 over 13 '
         'tokens, each with units= absent or any of the 6 dimensions '
         '(thorough: 14 dimensions, nan / inf / 1e300, length 4): lists with '
         'non-zero quantities of two dimensions must raise the units error, '
         'accepted bundles must keep the dimension and SI magnitudes of '
         'their non-zero elements and still refuse conversion / addition '
         'across dimensions. Power ladders: for the 14 named shapes, every '
         'chain of a fractional stage (n-th root for n <= 50, '
         'product or quotient of two tenth-powers) followed by an integer '
         'power (as int, negative int, float) that lands on an integer '
         'dimension in exact arithmetic must BE that dimension: the result '
         'is compared, added, subtracted, ordered, multiplied, divided and '
         'converted against an ordinary quantity of the landing dimension '
         'and must refuse another dimension. Unit names: every ordered pair '
         'of the 37 unit names of the reference table (ft, in, hp, psi, BTU, '
         'eV, molecule ... 18 dimensions) under the ten operators, and every '
         'one of 775 bare or SI-prefixed spellings against every bare name '
         'under conversion, + and <, with the documented resolution rule '
         '(own name before prefix) in the reference.',
    note='Magnitudes come from an 8-value alphabet (9 in thorough); lattice '
         'pairs use two finite magnitudes and no array with a zero element; '
         'chains of inexactly cancelling powers are run on the 14 named '
         'shapes only, not on the lattice; numpy scalars as plain '
         'operands and arrays of rank > 1 are not covered. Bundles hold '
         'scalar quantities and numbers only (no ArrayQuantity as an '
         'element, no tuple / generator container), are at most 3 long in '
         'quick, and enter the operator space only through + and in_units. '
         'Ladders use one magnitude (1.5), scalars only in quick, one '
         'fractional stage before the integer power, and only chains whose '
         'exact landing dimension is an integer vector (what two nearly '
         'equal FRACTIONAL exponents mean is left open). Unit-name operands '
         'have SI magnitudes 1.5 / 3 only; prefixed spellings meet bare '
         'names only (not each other) and only under in_units, + and <.',
    ref='5/C11')


class Open(Exception):
    pass


class WantUnitsError(Exception):
    pass


def exps_of(shape):
    return EXPS[shape] if shape in EXPS else LAT_EXPS[shape]


def make(shape, mag, form, route='text'):
    """-> (implementation operand, reference operand)
    route 'text': the unit comes from eval_qty(shape); route 'arith' (lattice
    shapes only): from powers and products of the base units."""
    import numpy as np
    from pgradd.Units import eval_qty
    if shape == '#zero':
        return 0, (0.0, None)
    if shape == '#number':
        v = mag if mag != 0.0 else 4.5
        return v, (v, None)
    if route == 'arith':
        u = None
        for base, e in LAT_FACTORS[shape]:
            f = eval_qty(base) ** e
            u = f if u is None else u * f
    else:
        u = eval_qty(shape)
    if form == 'scalar':
        m = mag
    elif form == 'array':
        m = np.array([mag, mag + 1.0 if mag != -1.0 else 7.0])
        if mag == 0.0:
            m = np.array([0.0, 0.0])
    else:
        m = np.array([0.0, mag])
    q = u * m
    return q, (m, exps_of(shape))


def allzero(m):
    import numpy as np
    return bool(np.all(np.asarray(m) == 0))


def ref_binop(name, fn, a, b):
    import numpy as np
    (ma, ea), (mb, eb) = a, b
    if ea is None and eb is None:
        raise Open()
    if name in ('*', '/'):
        if name == '/' and np.any(np.asarray(mb) == 0):
            raise Open()
        e1 = ea or NULL
        e2 = eb or NULL
        e = tuple(x + y if name == '*' else x - y for x, y in zip(e1, e2))
        return fn(ma, mb), (e if any(e) else None)
    comparable = None
    if ea is not None and eb is not None:
        if ea == eb:
            comparable = True
        elif allzero(ma) or allzero(mb):
            raise Open()        # zero-valued quantity of another dimension
        else:
            comparable = False
    else:
        plain = mb if eb is None else ma
        comparable = allzero(plain)
    if name == '==':
        return (fn(ma, mb) if comparable else False), None
    if name == '!=':
        return (fn(ma, mb) if comparable else True), None
    if not comparable:
        raise WantUnitsError()
    if name in ('+', '-'):
        return fn(ma, mb), (ea if ea is not None else eb)
    return fn(ma, mb), None


def observe(r):
    import numpy as np
    from pgradd.Units import Quantity, ArrayQuantity
    if isinstance(r, Quantity):
        return r.value, tuple(float(x) for x in r.units.exps)
    if isinstance(r, ArrayQuantity):
        return np.asarray(r.view(np.ndarray)), tuple(float(x) for x in r._units.exps)
    return r, None


def same(got, want, rtol=1e-12):
    # rtol: 1e-12 everywhere except the unit-names family (W5.NAME_RTOL)
    import numpy as np
    (gm, ge), (wm, we) = got, want
    if (ge is None) != (we is None):
        return False
    if ge is not None and any(abs(x - y) > 1e-9 for x, y in zip(ge, we)):
        return False
    try:
        g, w = np.asarray(gm), np.asarray(wm)
        if g.dtype == bool or w.dtype == bool:
            if w.shape == () and g.shape != ():
                return bool(np.all(g == w))
            return g.shape == w.shape and bool(np.all(g == w))
        # equal_nan: with nan/inf magnitudes the SI-magnitude arithmetic
        # itself gives nan (inf-inf, inf*0, nan+x); finite results are
        # compared exactly as before
        return g.shape == w.shape and bool(np.allclose(g, w, rtol=rtol, atol=0,
                                                       equal_nan=True))
    except Exception:    # noqa
        return False


def run_pair(R, sa, sb, only=None, tier='thorough', lat=False):
    """lat=False: the named shapes, full magnitude alphabet of the tier.
    lat=True: sa, sb are lattice dimensions; sa is built from its unit text,
    sb by arithmetic on the base units; magnitudes/forms of the lattice."""
    from pgradd.Error import UnitsError
    import numpy as np
    mags = W3.LATTICE_MAGS if lat else MAGS_TIER[tier]
    forms = W3.LATTICE_FORMS if lat else FORMS
    pre = 'lat' if lat else 'bin'
    for ma, mb in itertools.product(mags, mags):
        for fa, fb in itertools.product(forms, forms):
            if sa.startswith('#') and (fa != 'scalar' or (sa == '#zero' and ma != 0.0)):
                continue
            if sb.startswith('#') and (fb != 'scalar' or (sb == '#zero' and mb != 0.0)):
                continue
            qa, ra = make(sa, ma, fa)
            qb, rb = make(sb, mb, fb, route='arith' if lat else 'text')
            for name, fn in BINOPS:
                case = dict(kind='bin', a=[sa, W3.wmag(ma), fa],
                            b=[sb, W3.wmag(mb), fb], op=name)
                if lat:
                    case['fam'] = 'lat'
                if only is not None and only != case:
                    continue
                R.evals += 1
                try:
                    with np.errstate(all='ignore'):
                        want = ('val',) + ref_binop(name, fn, ra, rb)
                except Open:
                    R.outcomes['unjudged(statement open)'] += 1
                    continue
                except WantUnitsError:
                    want = ('UnitsError',)
                if lat or sa != sb or ma == mb or ma <= 0 or mb <= 0 or \
                        not (W3.finite(ma) and W3.finite(mb)):
                    R.nontrivial += 1
                try:
                    with np.errstate(all='ignore'):
                        got = ('val',) + observe(fn(qa, qb))
                except UnitsError:
                    got = ('UnitsError',)
                except Exception as e:    # noqa
                    got = ('EXC:' + type(e).__name__,)
                ok = (got[0] == want[0] and
                      (got[0] != 'val' or same(got[1:], want[1:])))
                R.outcomes['%s%s:%s' % ('lat:' if lat else '', name,
                                        'ok' if ok else 'bad')] += 1
                if not ok:
                    cls = ('same-dim' if ra[1] == rb[1] else
                           'plain' if ra[1] is None or rb[1] is None else 'cross-dim')
                    R.violation('%s:%s:%s:%s->%s' % (pre, name, cls, want[0], got[0]),
                                '(%s %s %s) %s (%s %s %s%s): expected %r, got %r' % (
                                    ma, sa, fa, name, mb, sb, fb,
                                    ', unit built by arithmetic' if lat else '',
                                    want, got), case)
    R.sample(dict(a='1.5 ' + sa, op='<', b='3.0 ' + sb), limit=2)


def run_unary(R, shape, only=None, tier='thorough', lat=False):
    """lat=True: shape is a lattice dimension; it is built by both routes,
    converted to every lattice dimension of the tier; no power chains."""
    import numpy as np
    from pgradd.Error import UnitsError
    if shape.startswith('#'):
        return
    targets = LATTICE[tier] if lat else SHAPES
    pre = 'lat:' if lat else ''
    routes = ('text', 'arith') if lat else ('text',)
    for mag in MAGS_TIER[tier]:
        for form, route in itertools.product(FORMS, routes):
            q, (m, e) = make(shape, mag, form, route)
            cases = [('neg', lambda: -q, (-m, e)), ('abs', lambda: abs(q), (abs(m), e))]
            for p in POWS:
                if (p == 0.5 and np.any(np.asarray(m) < 0)) or \
                        (p == -1 and np.any(np.asarray(m) == 0)):
                    R.evals += 1
                    R.outcomes['unjudged(statement open)'] += 1
                    continue
                ee = tuple(x * p for x in e)
                cases.append(('pow%s' % p, (lambda p=p: q ** p),
                              (np.asarray(m, dtype=float) ** p if form != 'scalar'
                               else float(m) ** p, ee if any(ee) else None)))
            for name, f, want in cases:
                case = dict(kind='un', a=[shape, W3.wmag(mag), form], op=name)
                if lat:
                    case.update(fam='lat', route=route)
                if only is not None and only != case:
                    continue
                R.evals += 1
                R.nontrivial += 1
                try:
                    with np.errstate(all='ignore'):
                        got = ('val',) + observe(f())
                except Exception as ex:     # noqa
                    got = ('EXC:' + type(ex).__name__,)
                ok = got[0] == 'val' and same(got[1:], want)
                R.outcomes['%s%s:%s' % (pre, name, 'ok' if ok else 'bad')] += 1
                if not ok:
                    R.violation('%sun:%s:%s' % (pre, name, got[0]),
                                '%s(%s %s %s): expected %r, got %r' % (
                                    name, mag, shape, form, want, got), case)
            # exponents that cancel only up to floating-point residue
            # (finite magnitudes, the named shapes: inf/inf is nan)
            if form == 'scalar' and mag > 0 and W3.finite(mag) and not lat:
                for a_, b_, c_ in ((0.1, 0.2, 0.3), (0.7, 0.2, 0.9), (1.0 / 3, 1.0 / 3, 2.0 / 3),
                                   (0.1, 0.7, 0.8)):
                    case = dict(kind='un', a=[shape, mag, form], op='chain%s' % ((a_, b_, c_),))
                    if only is not None and only != case:
                        continue
                    R.evals += 1
                    R.nontrivial += 1
                    try:
                        r1 = (q ** a_) * (q ** b_) / (q ** c_)
                        r2 = ((q ** a_) ** (1.0 / a_)) + q
                        got = ('val',) + observe(r1) + observe(r2)
                    except Exception as ex:      # noqa
                        got = ('EXC:' + type(ex).__name__,)
                    ok = (got[0] == 'val' and got[2] is None and
                          abs(float(got[1]) - 1.0) < 1e-9 and got[4] is not None and
                          all(abs(x - y) < 1e-9 for x, y in zip(got[4], e)) and
                          abs(float(got[3]) - 2 * m) < 1e-9 * abs(2 * m))
                    R.outcomes['chain:%s' % ('ok' if ok else 'bad')] += 1
                    if not ok:
                        R.violation('un:power-chain:%s' % got[0],
                                    '(q**%r)*(q**%r)/(q**%r) and (q**a)**(1/a)+q for q=%s %s: %r'
                                    % (a_, b_, c_, mag, shape, got), case)
            # conversion to every shape
            for target in targets:
                if target.startswith('#'):
                    continue
                case = dict(kind='conv', a=[shape, W3.wmag(mag), form], to=target)
                if lat:
                    case.update(fam='lat', route=route)
                if only is not None and only != case:
                    continue
                R.evals += 1
                R.nontrivial += 1
                try:
                    v = q.in_units(target)
                    got = ('val', v, None) if not hasattr(v, 'units') and \
                        not hasattr(v, '_units') else ('val',) + observe(v)
                except UnitsError:
                    got = ('UnitsError',)
                except Exception as ex:   # noqa
                    got = ('EXC:' + type(ex).__name__,)
                if exps_of(target) == e:
                    ok = got[0] == 'val' and same(got[1:], (m, None))
                    want = ('val', m, None)
                else:
                    ok = got[0] == 'UnitsError'
                    want = ('UnitsError',)
                R.outcomes['%sin_units:%s' % (pre, 'ok' if ok else 'bad')] += 1
                if not ok:
                    R.violation('%sconv:%s->%s' % (pre, want[0], got[0]),
                                '(%s %s %s).in_units(%s): expected %r, got %r' % (
                                    mag, shape, form, target, want, got), case)


def run_bundle(R, tokens, kw, dims, only=None):
    """Fourth wave.  ONE list handed to ArrayQuantity(list[, units=kw]);
    tokens spell the elements (domains/w4_c11.py).  Judged: the construction
    itself ('build'); then, if a bundle exists and was accepted: each element
    read back ('item:i'), conversion to ('conv:X') and addition of a unit
    quantity of ('add:X') every dimension X of `dims`.
    only: name of the single probe to run (replay); 'build' is always run."""
    import numpy as np
    from pgradd.Units import eval_qty, ArrayQuantity
    from pgradd.Error import UnitsError
    elems = [W4.parse(t) for t in tokens]
    verdict, cls, wdims = W4.expect(elems, kw)
    vals = np.array(W4.si_values(elems), dtype=float)
    pre = 'bundle:units=:' if kw is not None else 'bundle:'
    text = 'ArrayQuantity([%s]%s)' % (', '.join(tokens),
                                      ', units=%r' % kw if kw is not None else '')

    def wit(check):
        return dict(kind='bundle', items=list(tokens), units=kw, check=check)

    R.evals += 1
    if verdict == 'unjudged':
        R.outcomes['unjudged(statement open)'] += 1
        return
    if W4.nontrivial(elems, kw):
        R.nontrivial += 1
    data = [(m if d.startswith('#') else eval_qty(d) * m) for d, m in elems]
    b = None
    try:
        with np.errstate(all='ignore'):
            b = ArrayQuantity(data, units=kw) if kw is not None else ArrayQuantity(data)
        got = ('val',) + (observe(b) if isinstance(b, ArrayQuantity) else (b, None))
    except UnitsError:
        got = ('UnitsError',)
    except Exception as ex:     # noqa
        got = ('EXC:' + type(ex).__name__,)
    dim = None
    if verdict == 'refused':
        want = ('refused',)
        ok = got[0] in ('UnitsError', 'EXC:TypeError', 'EXC:ValueError')
    elif verdict == 'UnitsError':
        want = ('UnitsError',)
        ok = got[0] == 'UnitsError'
    elif verdict == 'val':
        want = ('val', vals, EXPS[wdims])
        ok = got[0] == 'val' and same(got[1:], want[1:])
        dim = wdims
    else:       # open: may be refused; an accepted bundle is judged
        want = ('UnitsError, or val', vals, sorted(wdims))
        if got[0] == 'UnitsError':
            R.outcomes['bundle:%s:refused (statement open)' % cls] += 1
            return
        ok = False
        for d in sorted(wdims):
            if got[0] == 'val' and same(got[1:], (vals, EXPS[d])):
                ok, dim = True, d
    R.outcomes['bundle:%s:%s' % (cls, 'ok' if ok else 'bad')] += 1
    if not ok:
        what = want[0] + '->' + got[0]
        if got[0] == 'val' and want[0] != 'refused' and want[0] != 'UnitsError':
            # an accepted bundle that is not the one demanded: say how
            exps_ok = got[2] is not None and any(
                all(abs(x - y) <= 1e-9 for x, y in zip(got[2], EXPS[d]))
                for d in ([wdims] if verdict == 'val' else sorted(wdims)))
            what = 'dimension-changed' if not exps_ok else 'magnitudes-changed'
        R.violation('%s%s:%s' % (pre, cls, what),
                    '%s: expected %r, got %r' % (text, want, got), wit('build'))
        return
    if got[0] != 'val':
        return
    # the accepted bundle as an operand
    e = EXPS[dim]
    probes = [('item:%d' % i, None) for i in range(len(tokens))]
    probes += [('%s:%s' % (k, x), x) for x in dims for k in ('conv', 'add')]
    for name, x in probes:
        if only is not None and only != name:
            continue
        R.evals += 1
        R.nontrivial += 1
        kind = name.split(':')[0]
        try:
            if kind == 'item':
                i = int(name.split(':')[1])
                want = ('val', float(vals[i]), e)
                with np.errstate(all='ignore'):
                    g = ('val',) + observe(b[i])
            elif kind == 'conv':
                want = ('val', vals, None) if EXPS[x] == e else ('UnitsError',)
                v = b.in_units(x)
                g = ('val', v, None) if not hasattr(v, 'units') and \
                    not hasattr(v, '_units') else ('val',) + observe(v)
            else:
                with np.errstate(all='ignore'):
                    try:
                        want = ('val',) + ref_binop('+', operator.add, (vals, e),
                                                    (1.0, EXPS[x]))
                    except WantUnitsError:
                        want = ('UnitsError',)
                    except Open:
                        R.outcomes['unjudged(statement open)'] += 1
                        continue
                    g = ('val',) + observe(b + eval_qty(x) * 1.0)
        except UnitsError:
            g = ('UnitsError',)
        except Exception as ex:     # noqa
            g = ('EXC:' + type(ex).__name__,)
        ok = g[0] == want[0] and (g[0] != 'val' or same(g[1:], want[1:]))
        R.outcomes['bundle:%s:%s' % (kind, 'ok' if ok else 'bad')] += 1
        if not ok:
            R.violation('%s%s:%s->%s' % (pre, kind, want[0], g[0]),
                        '%s then %s: expected %r, got %r' % (text, name, want, g),
                        wit(name))


def _try(f, UnitsError):
    """-> ('val', magnitude, exps|None) | ('UnitsError',) | ('EXC:Type',)"""
    import numpy as np
    try:
        with np.errstate(all='ignore'):
            return ('val',) + observe(f())
    except UnitsError:
        return ('UnitsError',)
    except Exception as ex:      # noqa
        return ('EXC:' + type(ex).__name__,)


def run_ladder(R, shape, stage, tier='thorough', only=None):
    """Fifth wave.  Every chain r = stage(q) ** k of ONE (shape, stage) that
    lands on an integer dimension (domains/w5_c11.py), x presentations of k
    x forms.  Judged per chain: the power itself ('pow'), the ten binary
    operators against an ordinary quantity p of the landing dimension made
    from unit text, magnitude 2x ('+' ..., reversed operand order 'rev+' ...),
    conversion to the landing dimension ('conv:same') and to another one
    ('conv:other'), addition of a quantity of another dimension
    ('add:other')."""
    import numpy as np
    from pgradd.Units import eval_qty
    from pgradd.Error import UnitsError
    exps = EXPS[shape]
    stage = tuple(stage)
    units = {}

    def unit(e):
        if e not in units:
            units[e] = eval_qty(W5.dim_text(e))
        return units[e]

    for form in W5.LADDER_FORMS[tier]:
        if only is not None and only['a'][2] != form:
            continue
        q, (m, _) = make(shape, W5.LADDER_MAG, form)
        try:
            with np.errstate(all='ignore'):
                if stage[0] == 'root':
                    t = q ** (1.0 / stage[1])
                elif stage[0] == 'prod':
                    t = (q ** (stage[1] / 10.0)) * (q ** (stage[2] / 10.0))
                else:
                    t = (q ** (stage[1] / 10.0)) / (q ** (stage[2] / 10.0))
            terr = None
        except Exception as ex:     # noqa
            t, terr = None, 'EXC:' + type(ex).__name__
        tv = W5.stage_value(m, stage)
        for k in W5.ladder_ks(tier, exps, stage):
            for pres in W5.KPRES[tier]:
                if only is not None and (only['k'] != k or only['pres'] != pres):
                    continue

                def wit(check):
                    return dict(kind='ladder', a=[shape, W5.LADDER_MAG, form],
                                stage=list(stage), k=k, pres=pres, check=check)

                text = '(%s(%s %s %s))**%s(%s)' % (
                    '%s%r' % (stage[0], stage[1:]), W5.LADDER_MAG, shape, form,
                    pres, k)
                kk, sg = W5.kvalue(k, pres)
                land = tuple(sg * x for x in W5.landing(exps, stage, k))
                e = tuple(float(x) for x in land)
                v = tv ** float(sg * k)
                probes = [('pow', None, None)]
                for order in W5.LADDER_ORDERS[tier]:
                    for name, fn in BINOPS:
                        probes.append((('rev' if order == 'pr' else '') + name,
                                       fn, (order, name)))
                probes += [('conv:same', None, None), ('conv:other', None, None),
                           ('add:other', None, None)]
                r = None
                for pname, fn, order in probes:
                    if only is not None and only['check'] != pname and pname != 'pow':
                        continue
                    R.evals += 1
                    R.nontrivial += 1
                    rtol = 1e-12
                    if pname == 'pow':
                        want = ('val', v, e)
                        rtol = 1e-11        # k <= 256 rounding steps apart
                        if terr is not None:
                            got = (terr,)
                        else:
                            got = _try(lambda: t ** kk, UnitsError)
                            if got[0] == 'val':
                                r = t ** kk
                    elif fn is not None:
                        p = unit(land) * (2.0 * v)
                        a, b = ((v, e), (2.0 * v, e))
                        x, y = r, p
                        if order[0] == 'pr':
                            a, b, x, y = b, a, y, x
                        with np.errstate(all='ignore'):
                            want = ('val',) + ref_binop(order[1], fn, a, b)
                        got = _try(lambda: fn(x, y), UnitsError)
                        rtol = 1e-11
                    elif pname == 'conv:same':
                        want = ('val', v, None)
                        rtol = 1e-11
                        got = _try(lambda: r.in_units(W5.dim_text(land)), UnitsError)
                    elif pname == 'conv:other':
                        want = ('UnitsError',)
                        got = _try(lambda: r.in_units(
                            W5.dim_text(W5.other_dim(land))), UnitsError)
                    else:
                        want = ('UnitsError',)
                        got = _try(lambda: r + unit(W5.other_dim(land)) * 1.0,
                                   UnitsError)
                    ok = got[0] == want[0] and (got[0] != 'val' or
                                                same(got[1:], want[1:], rtol=rtol))
                    R.outcomes['ladder:%s:%s' % (pname.split(':')[0],
                                                 'ok' if ok else 'bad')] += 1
                    if not ok:
                        R.violation('ladder:%s:%s->%s' % (pname, want[0], got[0]),
                                    '%s, landing on %s, then %s: expected %r, got %r'
                                    % (text, W5.dim_text(land), pname, want, got),
                                    wit(pname))
                    if pname == 'pow' and r is None:
                        break       # no result to probe further


def make_named(spelling, si, form):
    """operand spelled in a unit NAME, with SI magnitude si (array: si, 4 si)
    -> (implementation operand, reference operand)"""
    import numpy as np
    from pgradd.Units import eval_qty
    f, e = W5.name_ref(spelling)
    refm = si if form == 'scalar' else np.array([si, 4.0 * si])
    return eval_qty(spelling) * (refm / f), (refm, e)


def run_names_pair(R, na, nb, only=None):
    """Fifth wave.  Ordered pair of unit names x SI magnitude pairs x forms
    x the ten binary operations; oracle as run_pair, magnitudes to NAME_RTOL."""
    import numpy as np
    from pgradd.Error import UnitsError
    for sa, sb in W5.name_pairs_si(na, nb):
        for fa, fb in itertools.product(W5.NAME_FORMS, W5.NAME_FORMS):
            if only is not None and (only['a'] != [na, sa, fa] or
                                     only['b'] != [nb, sb, fb]):
                continue
            try:
                qa, ra = make_named(na, sa, fa)
                qb, rb = make_named(nb, sb, fb)
            except Exception as ex:     # noqa
                R.evals += 1
                R.violation('names:unit-text:EXC:%s' % type(ex).__name__,
                            'making %s %s (%s) and %s %s (%s) raised %r' % (
                                sa, na, fa, sb, nb, fb, ex),
                            dict(kind='names', a=[na, sa, fa], b=[nb, sb, fb],
                                 op='#make'))
                continue
            for name, fn in BINOPS:
                case = dict(kind='names', a=[na, sa, fa], b=[nb, sb, fb], op=name)
                if only is not None and only['op'] not in (name, '#make'):
                    continue
                R.evals += 1
                R.nontrivial += 1
                try:
                    with np.errstate(all='ignore'):
                        want = ('val',) + ref_binop(name, fn, ra, rb)
                except WantUnitsError:
                    want = ('UnitsError',)
                got = _try(lambda: fn(qa, qb), UnitsError)
                ok = (got[0] == want[0] and
                      (got[0] != 'val' or same(got[1:], want[1:], rtol=W5.NAME_RTOL)))
                R.outcomes['names:%s:%s' % (name, 'ok' if ok else 'bad')] += 1
                if not ok:
                    cls = 'same-dim' if ra[1] == rb[1] else 'cross-dim'
                    R.violation('names:%s:%s:%s->%s' % (name, cls, want[0], got[0]),
                                '(SI %s as %s, %s) %s (SI %s as %s, %s): expected %r, '
                                'got %r' % (sa, na, fa, name, sb, nb, fb, want, got),
                                case)
    R.sample(dict(a='SI 1.5 spelled in ' + na, op='<', b='SI 3.0 spelled in ' + nb),
             limit=2)


def run_names_conv(R, nb, only=None):
    """Fifth wave.  Every spelling a (bare and prefixed names) against the
    bare name nb: a -> nb and nb -> a conversions, a + nb, a < nb."""
    from pgradd.Units import eval_qty
    from pgradd.Error import UnitsError
    fb, eb = W5.name_ref(nb)
    for a in W5.spelled():
        if only is not None and only['a'] != a:
            continue
        fa, ea = W5.name_ref(a)
        try:
            qa = eval_qty(a) * (3.0 / fa)
            qb = eval_qty(nb) * (1.5 / fb)
        except Exception as ex:     # noqa
            R.evals += 1
            R.violation('nconv:unit-text:EXC:%s' % type(ex).__name__,
                        'making quantities in %s and %s raised %r' % (a, nb, ex),
                        dict(kind='nconv', a=a, b=nb, check='#make'))
            continue
        comp = ea == eb
        probes = [('conv:a->b', lambda: qa.in_units(nb), ('val', 3.0 / fb, None)),
                  ('conv:b->a', lambda: qb.in_units(a), ('val', 1.5 / fa, None)),
                  ('+', lambda: qa + qb, ('val', 4.5, ea)),
                  ('<', lambda: qa < qb, ('val', False, None))]
        for pname, f, want in probes:
            if only is not None and only['check'] not in (pname, '#make'):
                continue
            R.evals += 1
            R.nontrivial += 1
            if not comp:
                want = ('UnitsError',)
            got = _try(f, UnitsError)
            ok = (got[0] == want[0] and
                  (got[0] != 'val' or same(got[1:], want[1:], rtol=W5.NAME_RTOL)))
            R.outcomes['nconv:%s:%s' % (pname.split(':')[0], 'ok' if ok else 'bad')] += 1
            if not ok:
                R.violation('nconv:%s:%s->%s' % (pname, want[0], got[0]),
                            'a = SI 3.0 spelled in %s, b = SI 1.5 spelled in %s, %s: '
                            'expected %r, got %r' % (a, nb, pname, want, got),
                            dict(kind='nconv', a=a, b=nb, check=pname))
    R.sample(dict(a='SI 3.0 spelled in k' + nb, check='conv:a->b', b=nb), limit=1)


def shards(tier, seed):
    out = []
    for sa in SHAPES:
        for sb in SHAPES:
            out.append(('pair', sa, sb))
    for s in SHAPES:
        out.append(('unary', s))
    # third wave: one shard per first lattice dimension (x every second one),
    # one per lattice dimension for the unary operations and conversions
    for s in LATTICE[tier]:
        out.append(('latpair', s))
    for s in LATTICE[tier]:
        out.append(('latunary', s))
    # fourth wave: bundles, one shard per family and first element
    out.extend(W4.shards(tier))
    # fifth wave: power ladders, one shard per (shape, stage kind); unit
    # names, one shard per first name (pairs) and per bare target name
    # (conversions / addition against every bare and prefixed spelling)
    for s in SHAPES:
        if not s.startswith('#'):
            for kind in W5.STAGE_KINDS:
                out.append(('ladder', s, kind))
    for n in W5.NAMES:
        out.append(('npair', n))
    for n in W5.NAMES:
        out.append(('nconv', n))
    return out


def run_shard(shard, tier):
    R = Result()
    if shard[0] == 'pair':
        run_pair(R, shard[1], shard[2], tier=tier)
    elif shard[0] == 'unary':
        run_unary(R, shard[1], tier=tier)
    elif shard[0] == 'latpair':
        for sb in LATTICE[tier]:
            run_pair(R, shard[1], sb, tier=tier, lat=True)
    elif shard[0] == 'bundle':
        for tokens in W4.lists_of(tier, shard[1], shard[2]):
            for kw in W4.kwargs_of(tier):
                run_bundle(R, tokens, kw, W4.DIMS[tier])
        R.sample(dict(bundle=[shard[2], '0.0 s', '3.0 s'], units=None), limit=1)
    elif shard[0] == 'ladder':
        for stage in W5.stages(tier, shard[2]):
            run_ladder(R, shard[1], stage, tier=tier)
        R.sample(dict(ladder='((1.5 %s)**0.1 * (1.5 %s)**0.2)**10' % (shard[1], shard[1])),
                 limit=1)
    elif shard[0] == 'npair':
        for nb in W5.NAMES:
            run_names_pair(R, shard[1], nb)
    elif shard[0] == 'nconv':
        run_names_conv(R, shard[1])
    else:
        run_unary(R, shard[1], tier=tier, lat=True)
    return R


def replay(w):
    # a witness is one case; it is searched in the thorough space, of which
    # the quick space is a subset (same case dictionaries)
    R = Result()
    lat = w.get('fam') == 'lat'
    if w['kind'] == 'bundle':
        # one list, its units= argument and one probe; the constructor keeps
        # no state, so this is the whole history
        run_bundle(R, w['items'], w['units'], W4.ALL_DIMS, only=w['check'])
    elif w['kind'] == 'ladder':
        # one chain (shape, stage, k, presentation, form) and one probe
        run_ladder(R, w['a'][0], w['stage'], tier='thorough', only=w)
    elif w['kind'] == 'names':
        run_names_pair(R, w['a'][0], w['b'][0], only=w)
    elif w['kind'] == 'nconv':
        run_names_conv(R, w['b'], only=w)
    elif w['kind'] == 'bin':
        run_pair(R, w['a'][0], w['b'][0], only=w, lat=lat)
    else:
        run_unary(R, w['a'][0], only=w, lat=lat)
    return dict(violates=bool(R.violations),
                detail='\n'.join(v['msg'] for v in R.violations) or 'holds')
