"""C17 - a generated network is the duplicate-free closure of its seeds
(explicit-state: species are states, rule applications are transitions).

Instances: every 1- and 2-subset of 7 seed molecules x every non-empty rule
subset of size <= 2 (quick) / <= 3 (thorough) of a 6-rule pool, each rule in
reaction-SMARTS form and in RING-text form, passed as strings and as rule
objects.  Oracle: models/closure.py (independent breadth-first closure).

(The base family has since grown to 10 seeds and a 9-rule pool, see BOUND.)

Third wave, two further families (domains/w3_c17.py), same oracle, same
instance() and witness shape, rule subsets of the same size bound:
  hetero - for each of 12 main-group elements X (B N O F Si P S Cl As Se Br I):
           seeds CH3-X, CH2=X (8 elements), .CH2-X, one seed at a time, x rule
           subsets of {C-H, X-H, C-X scission, C-X -> C=X, C=X -> C#X}.  The
           order-raising rules push an atom above its default valence unless a
           scission made room first, so the stated valence filter decides the
           closure for every element (P, S, As, Se, I have further tabulated
           valences above the default one).  SMARTS form: all five rules; RING
           form: the three scissions (the RING reader refuses rules that are
           not electron-balanced, and balanced ones cannot over-valence).
  chain  - 12 seeds of 3-4 heavy atoms (C/O chains and branches, symmetric and
           not) x rule subsets of the 16 rules "pattern a0-a1-a2 over {C,O}^3,
           break bond (a0,a1) or (a1,a2)", in SMARTS and RING form.  With
           a0, a2 of one type the pattern is mirror-symmetric and the edit is
           not: two labellings of the same atom set give different products.

Fourth wave, two further families (domains/w4_c17.py), same oracle:
  aro     - 6 aromatic molecules (benzene, toluene, phenol, pyridine, furan,
            pyrrole) x {aromatic spelling, Kekule spelling}, one seed at a
            time, x rule subsets (same size bound) of the base pool plus three
            scissions naming an aromatic atom (aryl C-H, aryl C-C, aryl C-O),
            in SMARTS and RING form, as strings and as rule objects.  Same
            instance() and witness shape as the other families.
  session - histories: the SAME rules serve two networks one after the other
            in one process.  Step alphabet: every distinct heavy-atom order of
            methanol and ethanol (thorough: also acetaldehyde, propane) as a
            seed text; all ordered pairs of steps x rule subsets (same size
            bound) of {C-C, C-H, C-O, O-H scission} x {SMARTS, RING text} x
            {the same rule objects in a fresh list per call, one caller-owned
            list of rule texts passed to both calls}.  Every network of the
            history is judged against the reference closure of its own seed;
            the witness carries the whole history (kind 'session').

Fifth wave, three further families (domains/w5_c17.py) and one further input
type.  In all three a seed goes to the generator as SMILES text AND as an RDKit
molecule object (both documented); one seed (hyper: also methane + seed) at a
time x rule subsets of the same size bound x {strings, rule objects}:
  stereo - 4 skeletons with a stereo element (1,2-difluoroethene,
           methyloxirane, .CH2-CHFCl, CHFClBr) in every labelling (none, E/Z
           or @/@@): 12 seeds x rule subsets of {C-H, C-O scission, DEC, INC,
           H shift, oxirane opening (SMARTS only), 1,3-ring closure} in
           SMARTS and RING form.  DEC+INC, ring opening + ring closure and
           the H shift regenerate the seed's constitution without its label.  A species is a constitution: the
           reference closure is that of the unlabelled skeleton and the
           returned species are written without stereo labels.
  hyper  - 19 seeds with an atom above the default valence of its element
           (methyl-X oxides at every further tabulated valence of P, S, As,
           Se, I; DMSO, dimethyl sulfone, SO2, phosphoric acid; ammonium,
           oxonium, nitro, borohydride ions) x seed sets {seed; methane, seed}
           x rule subsets of {C-H, O-H, X-H, C-X scission}, SMARTS and RING
           form.  The reference closure keeps every seed (the valence filter
           applies to products only), as the property says.
  open   - the 12 aromatic spellings of the aro family x rule subsets of 6
           scissions whose pattern spans an aromatic ring bond (c:c, c:n, c:o,
           default-bond c c and c o, [#6][#6]) plus aryl C-C and C-O scission
           (thorough: plus aryl C-H scission): the ring is opened.  SMARTS form
           only (a RING rule breaking an aromatic bond is not electron-
           balanced).  Open-chain fragments keep aromatic flags and cannot be
           kekulized, so both sides are compared by W5.flat_key of the
           molecules (connectivity + element + charge + hydrogen count).
"""
import itertools
import re

from ..runner import Result
from ..models import closure as CL
from ..domains import w3_c17 as W3
from ..domains import w4_c17 as W4
from ..domains import w5_c17 as W5

LEVEL = 'model_checking'
SEEDS = ['C', 'CC', 'CCC', 'C=C', 'CO', 'CCO', 'C1CC1', 'C=O', '[CH2]C', '[H][H]']
POOL = {
    'CH': ('[C:1][H:2]>>[C:1].[H:2]',
           [('C?', None), ('H', ('single', 0))],
           [('radinc', 0), ('radinc', 1), ('break', 0, 1, None)]),
    'CC': ('[C:1]-[C:2]>>[C:1].[C:2]',
           [('C?', None), ('C?', ('single', 0))],
           [('radinc', 0), ('radinc', 1), ('break', 0, 1, None)]),
    'CO': ('[C:1]-[O:2]>>[C:1].[O:2]',
           [('C?', None), ('O?', ('single', 0))],
           [('radinc', 0), ('radinc', 1), ('break', 0, 1, None)]),
    'OH': ('[O:1][H:2]>>[O:1].[H:2]',
           [('O?', None), ('H', ('single', 0))],
           [('radinc', 0), ('radinc', 1), ('break', 0, 1, None)]),
    'DEC': ('[C:1]=[C:2]>>[C:1]-[C:2]',
            [('C?', None), ('C?', ('double', 0))],
            [('dec', 0, 1), ('radinc', 0), ('radinc', 1)]),
    'INC': ('[C:1]-[C:2]>>[C:1]=[C:2]',
            [('C.', None), ('C.', ('single', 0))],
            [('inc', 0, 1), ('raddec', 0), ('raddec', 1)]),
    # 1,2-hydrogen shift onto a radical centre (degenerate for ethyl)
    'HSHIFT': ('[H:3][C:1]-[C;v3:2]>>[C:1]-[C:2][H:3]',
               [('C?', None), ('H', ('single', 0)), ('C.', ('single', 0))],
               [('break', 0, 1, None), ('form', 2, 1, None), ('radinc', 0), ('raddec', 2)]),
    # raises the C-O bond order: over-valences a terminal oxygen (must be filtered)
    'COINC': ('[C:1]=[O:2]>>[C:1]#[O:2]', None, None),
    # acts on a species without heavy atoms
    'HH': ('[H:1][H:2]>>[H:1].[H:2]',
           [('H', None), ('H', ('single', 0))],
           [('radinc', 0), ('radinc', 1), ('break', 0, 1, None)]),
}
# every rule any family can name (witnesses carry names only)
# (labelled, unlabelled) isotopologue pairs and the rules run on them
ISO_PAIRS = (('[13CH4]', 'C'), ('[13CH3]C', 'CC'), ('[2H]C', 'C'), ('C[18OH]', 'CO'))
ISO_RULES = ('CH', 'CC')
RULES = dict(W3.all_rules())
RULES.update(W4.all_rules())
RULES.update(W5.all_rules())
RULES.update(POOL)
ARO = sorted(POOL) + sorted(W4.aro_pool())
CHAIN = sorted(W3.chain_pool())
KMAX = {'quick': 2, 'thorough': 3}
BOUND = {t: '55 seed sets (all 1- and 2-subsets of 10 molecules incl. a radical and H2) x all non-empty '
            'rule sets of size <= %d from a pool of 9 (8 with a RING form) x {SMARTS, RING text} x '
            '{strings, rule objects}; plus hetero: 32 single seeds (CH3-X, CH2=X, .CH2-X for 12 '
            'main-group elements X of periods 2-5) x all non-empty rule sets of size <= %d from '
            '{C-H, X-H, C-X scission, C-X->C=X, C=X->C#X} (SMARTS: 5 rules, RING: the 3 scissions) x '
            '{strings, rule objects}; plus chain: 12 single seeds of 3-4 heavy atoms over C/O x all '
            'non-empty rule sets of size <= %d from the 16 rules {a0-a1-a2 over {C,O}^3} x {break '
            '(a0,a1), break (a1,a2)} x {SMARTS, RING text} x {strings, rule objects}; plus aro: 12 '
            'single seeds (benzene, toluene, phenol, pyridine, furan, pyrrole x {aromatic, Kekule '
            'spelling}) x all non-empty rule sets of size <= %d from the base pool plus {aryl C-H, '
            'aryl C-C, aryl C-O scission} (12 rules, 11 with a RING form) x {SMARTS, RING text} x '
            '{strings, rule objects}; plus session: all ordered pairs of %d seed texts (every '
            'distinct heavy-atom order of %s) generated one after the other with the same rules x '
            'all non-empty rule sets of size <= %d from {C-C, C-H, C-O, O-H scission} x {SMARTS, '
            'RING text} x {same rule objects, same caller-owned list of rule texts}; plus, each '
            'with the seeds given as {SMILES text, molecule objects} x {strings, rule objects}: '
            'stereo: 12 single seeds (FC=CF, methyloxirane, .CH2-CHFCl, CHFClBr x {no label, '
            'each of the 2 labels}) x all non-empty rule sets of size <= %d from {C-H, C-O '
            'scission, DEC, INC, H shift, oxirane opening (SMARTS only), 1,3-ring closure} x '
            '{SMARTS, RING text}; hyper: 19 '
            'seeds with an atom above its default valence (8 methyl-X oxides of P/S/As/Se/I, '
            'DMSO, dimethyl sulfone, SO2, H3PO4, 7 onium/ate ions) x {seed alone, methane + '
            'seed} x all non-empty rule sets of size <= %d from {C-H, O-H, X-H, C-X scission} '
            'x {SMARTS, RING text}; open: 12 aromatic seed spellings x all non-empty rule '
            'sets of size <= %d from %d rules (6 scissions spanning an aromatic ring bond, '
            'aryl C-C, aryl C-O%s scission), SMARTS form; iso (sixth wave): 4 isotopologue seed '
            'pairs (13C-methane, 13C-ethane, D-methane, 18O-methanol with the unlabelled '
            'molecule) in both seed orders x rule sets from {C-H, C-C scission} x {SMARTS, RING '
            'text} x {strings, objects} x {text, Mol seeds}'
            % (KMAX[t], KMAX[t], KMAX[t], KMAX[t], len(W4.session_alphabet(t)),
               ', '.join(W4.SESSION_MOLS[t]), KMAX[t], KMAX[t], KMAX[t], KMAX[t],
               len(W5.OPEN_RULES[t]), ', aryl C-H' if 'ar:cH' in W5.OPEN_RULES[t] else '')
            for t in KMAX}
RULE = ('each instance is generated by GenerateRxnNet and by the reference '
        'closure; states = species of the reference closures, transitions = '
        'rule applications (product sets) in them; an instance is non-trivial '
        'when the closure has more species than seeds; in the session family '
        'every network of a history is one evaluation (the second one made '
        'with rules that already served the first)')
ASSUMPTIONS = ['species identity is the canonical SMILES with all hydrogens '
               'explicit; RDKit RunReactants is trusted for SMARTS rules',
               'work budget: the rules may be applied at most 3 x |closure| x '
               '|rules| + 100 times (counted by wrapping the rule objects)',
               'unimolecular rules only',
               'the stated valence filter is read as: a product is discarded '
               'iff some atom has a total valence above the DEFAULT valence '
               'of its element in RDKit\'s periodic table (S 2, P 3, I 1 ...), '
               'whatever further valences the table lists',
               'aromaticity is RDKit\'s perception on the seed as written '
               '(aromatic and Kekule spellings denote the same species); no '
               'rule of the aro family matches a ring bond of an aromatic '
               'ring (ring opening is explored by the open family)',
               'stereo family: a species is a constitution - the rules carry '
               'no stereo information and the generator documents none; the '
               'reference closure is computed on the unlabelled skeleton and '
               'returned species are compared without their stereo labels',
               'hyper family: a seed belongs to its network whatever its '
               'valences ("contains every seed"); the valence filter is '
               'applied to products only',
               'open family: species are compared by connectivity + element + '
               'charge + hydrogen count of every atom (bond orders only change '
               'by breaking a bond there); an instance whose reference closure '
               'holds the same fragment with and without aromatic flags '
               '([#6] vs [c] product templates) is not judged',
               'session family: a network is a function of the seeds and the '
               'rules as given, whatever the rule objects served before; the '
               'harness\'s counting wrappers stay around the rule objects '
               'for the whole history']
MANIFEST = dict(
    technique='explicit-state closure: independent BFS over species vs the '
              'generator, with a counted work budget for termination',
    text='For all seed sets and rule sets of the stated alphabets, in SMARTS '
         'and RING form, the list returned by the network generator must equal '
         '- as a multiset of species - the independently computed '
         'breadth-first closure: every seed, everything reachable under the '
         'valence filter, nothing else, nothing twice, within a rule-'
         'application budget proportional to the closure.  The same holds '
         'for aromatic seeds in either spelling, and for every network of a '
         'two-step history made with the same rule objects / the same '
         'caller-owned rule list.  Seeds given as text or as molecule '
         'objects; seeds carrying stereo labels (species = constitution); '
         'seeds with atoms above the default valence (always part of their '
         'network); aromatic seeds with rules that open the ring.',
    note='Seeds up to three heavy atoms (four in the chain family, which has '
         'heavy-atom scissions only); heteroatom seeds have one carbon and '
         'one heteroatom; order-raising rules on heteroatoms in SMARTS form '
         'only; bimolecular rules not covered.  Aromatic seeds: one ring, '
         'at most one substituent; ring-opening rules as reaction SMARTS '
         'only and compared up to bond orders.  Molecule-object seeds only '
         'in the stereo, hyper and open families.  Histories '
         'on the same rule objects: two networks, one seed each.',
    ref='5/C17')


class Hang(BaseException):
    pass


class Counting(object):
    """Wraps a rule object; GenerateRxnNet only uses these two methods."""
    def __init__(self, inner, box):
        self.inner, self.box = inner, box

    def GetNumReactantTemplates(self):
        return self.inner.GetNumReactantTemplates()

    def RunReactants(self, reactants):
        self.box['n'] += 1
        if self.box['n'] > self.box['budget']:
            raise Hang()
        return self.inner.RunReactants(reactants)


def rule_text(name):
    from ..models import ruleref
    _, atoms, seq = RULES[name]
    return ruleref.rule_text(atoms, seq, name='r' + re.sub('[^A-Za-z0-9]', '', name))


def instance(R, seeds, rules, form, how, wit_only=False, seed_as='text', fam=None):
    """One network.  seed_as: the seeds go to the generator as SMILES 'text'
    or as 'mol' objects.  fam: None (species compared by canonical SMILES),
    'stereo' (by constitution: reference closure of the unlabelled skeleton,
    returned species written without stereo labels) or 'open' (by
    W5.flat_key of the molecules on both sides); any other family name only
    prefixes the violation key."""
    from rdkit import Chem
    from rdkit.Chem.AllChem import ReactionFromSmarts
    from pgradd.RDkitWrapper import GenRxnNet
    from pgradd.RINGParser import Read
    if form == 'smarts':
        ref_rules = [CL.SmartsRule(RULES[r][0]) for r in rules]
        texts = [RULES[r][0] for r in rules]
    else:
        ref_rules = [CL.RingRule(RULES[r][1], RULES[r][2]) for r in rules]
        texts = [rule_text(r) for r in rules]
    if fam == 'stereo':
        exp, nspecies, ntrans = CL.closure([W5.skeleton(s) for s in seeds], ref_rules)
        show = (lambda m: Chem.MolToSmiles(m, isomericSmiles=False))
    elif fam == 'open':
        exp, nspecies, ntrans = W5.closure_by(seeds, ref_rules, W5.flat_key)
        show = W5.flat_key
    else:
        exp, nspecies, ntrans = CL.closure(seeds, ref_rules)
        show = Chem.MolToSmiles
    wit = dict(kind='net', seeds=list(seeds), rules=list(rules), form=form, how=how)
    if seed_as != 'text' or fam is not None:
        wit.update(seed_as=seed_as, fam=fam)
    R.evals += 1
    R.traces += 1
    R.states += nspecies
    R.transitions += ntrans
    if nspecies > len(seeds):
        R.nontrivial += 1
    if len(set(exp)) != len(exp):
        if fam == 'open':
            R.outcomes['unjudged(reference closure holds one fragment with and '
                       'without aromatic flags)'] += 1
        else:
            R.outcomes['unjudged(two species share a hydrogen-suppressed form)'] += 1
        return
    box = dict(n=0, budget=3 * nspecies * len(rules) + 100)
    patched = []
    try:
        if how == 'objects':
            if form == 'smarts':
                objs = [Counting(ReactionFromSmarts(t), box) for t in texts]
            else:
                objs = [Counting(Read(t), box) for t in texts]
            arg_rules = objs
        else:
            arg_rules = list(texts)
            # count applications of rules the generator builds itself
            for nm in ('Read', 'ReactionFromSmarts'):
                if hasattr(GenRxnNet, nm):
                    orig = getattr(GenRxnNet, nm)
                    patched.append((nm, orig))
                    setattr(GenRxnNet, nm,
                            (lambda o: (lambda t: Counting(o(t), box)))(orig))
        try:
            if seed_as == 'mol':
                arg_seeds = [Chem.MolFromSmiles(s) for s in seeds]
            else:
                arg_seeds = list(seeds)
            res = GenRxnNet.GenerateRxnNet(arg_seeds, arg_rules)
            got = sorted(show(m) for m in res)
        except Hang:
            got = 'HANG'
        except Exception as e:       # noqa
            got = 'EXC:%s:%s' % (type(e).__name__, str(e)[:80])
    finally:
        for nm, orig in patched:
            setattr(GenRxnNet, nm, orig)
    tag = '%s/%s' % (form, how)
    if fam is not None:
        tag = '%s/%s' % (fam, tag)
    if seed_as != 'text':
        tag = '%s/%s' % (tag, seed_as)
    if got == exp:
        R.outcomes['closure:same'] += 1
        R.sample(dict(seeds=list(seeds), rules=texts, species=len(exp),
                      transitions=ntrans, rule_applications=box['n']), limit=2)
        return
    cls, msg = classify(got, exp)
    R.outcomes['closure:' + cls] += 1
    R.violation('%s:%s' % (cls, tag), 'seeds %s, rules %s (%s): %s' % (
        list(seeds), list(rules), tag, msg), wit)


def classify(got, exp):
    """(class, text) of a generated species list that differs from the closure."""
    if isinstance(got, str):
        cls = got.split(':')[0] + (':' + got.split(':')[1] if got.startswith('EXC') else '')
        return cls, got
    import collections
    dup = [s for s, c in collections.Counter(got).items() if c > 1]
    extra = sorted(set(got) - set(exp))
    missing = sorted(set(exp) - set(got))
    cls = ('duplicates' if dup and not extra and not missing else
           'missing' if missing and not extra else
           'extra' if extra and not missing else 'extra+missing')
    msg = ('returned %d species for a closure of %d; listed twice: %s; not '
           'in the closure: %s; missing: %s' % (len(got), len(exp), dup[:4],
                                                extra[:4], missing[:4]))
    return cls, msg


_REF = {}


def reference(seed, rules, form):
    """Reference closure of one seed text (kept per process: the histories of
    one shard name the same (text, rule set) many times)."""
    key = (seed, tuple(rules), form)
    if key not in _REF:
        if form == 'smarts':
            ref_rules = [CL.SmartsRule(RULES[r][0]) for r in rules]
        else:
            ref_rules = [CL.RingRule(RULES[r][1], RULES[r][2]) for r in rules]
        _REF[key] = CL.closure((seed,), ref_rules)
    return _REF[key]


def session(R, steps, rules, form, mode):
    """One history: the networks of steps[0], steps[1], ... (one seed text
    each) are generated one after the other in this process with the SAME
    rules - mode 'objects': the same rule objects, in a fresh list per call;
    mode 'list': one caller-owned list of rule texts handed to every call
    (the generator replaces its entries by the objects it builds).  Each
    network is judged against the reference closure of its own seed; the
    history stops at the first network that differs."""
    from rdkit import Chem
    from rdkit.Chem.AllChem import ReactionFromSmarts
    from pgradd.RDkitWrapper import GenRxnNet
    from pgradd.RINGParser import Read
    if form == 'smarts':
        texts = [RULES[r][0] for r in rules]
    else:
        texts = [rule_text(r) for r in rules]
    box = dict(n=0, budget=0)
    patched = []
    try:
        if mode == 'objects':
            make = ReactionFromSmarts if form == 'smarts' else Read
            objs = [Counting(make(t), box) for t in texts]
            owned = None
        else:
            owned = list(texts)
            for nm in ('Read', 'ReactionFromSmarts'):
                if hasattr(GenRxnNet, nm):
                    orig = getattr(GenRxnNet, nm)
                    patched.append((nm, orig))
                    setattr(GenRxnNet, nm,
                            (lambda o: (lambda t: Counting(o(t), box)))(orig))
        for i, seed in enumerate(steps):
            exp, nspecies, ntrans = reference(seed, rules, form)
            R.evals += 1
            R.traces += 1
            R.states += nspecies
            R.transitions += ntrans
            if nspecies > 1:
                R.nontrivial += 1
            if len(set(exp)) != len(exp):
                R.outcomes['unjudged(two species share a hydrogen-suppressed form)'] += 1
                continue
            box['n'] = 0
            box['budget'] = 3 * nspecies * len(rules) + 100
            try:
                res = GenRxnNet.GenerateRxnNet(
                    [seed], list(objs) if owned is None else owned)
                got = sorted(Chem.MolToSmiles(m) for m in res)
            except Hang:
                got = 'HANG'
            except Exception as e:       # noqa
                got = 'EXC:%s:%s' % (type(e).__name__, str(e)[:80])
            if got == exp:
                R.outcomes['closure:same'] += 1
                if i:
                    R.sample(dict(history=list(steps[:i + 1]), rules=texts, mode=mode,
                                  species=len(exp), transitions=ntrans,
                                  rule_applications=box['n']), limit=1)
                continue
            cls, msg = classify(got, exp)
            R.outcomes['closure:' + cls] += 1
            tag = 'session/%s/%s:step%d' % (form, mode, i + 1)
            R.violation('%s:%s' % (cls, tag),
                        'networks of %s generated one after the other with the same '
                        'rules %s (%s, %s); network %d, seed %s: %s' % (
                            list(steps[:i + 1]), list(rules), form, mode, i + 1, seed, msg),
                        dict(kind='session', steps=list(steps[:i + 1]), rules=list(rules),
                             form=form, mode=mode))
            return
    finally:
        for nm, orig in patched:
            setattr(GenRxnNet, nm, orig)


def shards(tier, seed):
    out = []
    seedsets = [(s,) for s in SEEDS] + list(itertools.combinations(SEEDS, 2))
    for ss in seedsets:
        for form in ('smarts', 'ring'):
            out.append(('inst', ss, form))
    for form in ('smarts', 'ring'):
        for x in [h[0] for h in W3.HETERO]:
            out.append(('hetero', x, form))
        for sd in W3.CHAIN_SEEDS:
            out.append(('chain', sd, form))
        for sd in W4.ARO_SEEDS:
            out.append(('aro', sd, form))
        for first in W4.session_alphabet(tier):
            out.append(('session', first, form))
        for sd in W5.STEREO_SEEDS:
            out.append(('stereo', sd, form))
        for sd in W5.HYPER_SEEDS:
            out.append(('hyper', sd, form))
    for sd in W5.OPEN_SEEDS:
        out.append(('open', sd, 'smarts'))
    # (sixth wave, C17-m16) isotopologue seed pairs in both orders: species
    # identity includes the isotope label, so the closure is the union of the
    # labelled and the unlabelled network whichever seed is listed first
    for form in ('smarts', 'ring'):
        for pair in ISO_PAIRS:
            out.append(('iso', pair, form))
    return out


def run_shard(shard, tier):
    R = Result()
    fam, ss, form = shard
    if fam == 'hetero':
        names = sorted(W3.hetero_pool(ss))
        for sd in W3.hetero_seeds(ss):
            for k in range(1, KMAX[tier] + 1):
                for rs in itertools.combinations(names, k):
                    if form == 'ring' and any(RULES[r][1] is None for r in rs):
                        continue
                    for how in ('strings', 'objects'):
                        instance(R, (sd,), rs, form, how)
        return R
    if fam == 'chain':
        for k in range(1, KMAX[tier] + 1):
            for rs in itertools.combinations(CHAIN, k):
                for how in ('strings', 'objects'):
                    instance(R, (ss,), rs, form, how)
        return R
    if fam == 'aro':
        for k in range(1, KMAX[tier] + 1):
            for rs in itertools.combinations(ARO, k):
                if form == 'ring' and any(RULES[r][1] is None for r in rs):
                    continue
                for how in ('strings', 'objects'):
                    instance(R, (ss,), rs, form, how)
        return R
    if fam in ('stereo', 'hyper', 'open'):
        names = (W5.STEREO_RULES if fam == 'stereo' else
                 W5.hyper_rules(ss) if fam == 'hyper' else W5.OPEN_RULES[tier])
        seedsets = W5.hyper_seedsets(ss) if fam == 'hyper' else [(ss,)]
        for sset in seedsets:
            for k in range(1, KMAX[tier] + 1):
                for rs in itertools.combinations(names, k):
                    if form == 'ring' and any(RULES[r][1] is None for r in rs):
                        continue
                    for how in ('strings', 'objects'):
                        for seed_as in W5.SEED_AS:
                            instance(R, sset, rs, form, how, seed_as=seed_as, fam=fam)
        return R
    if fam == 'iso':
        for order in (tuple(ss), tuple(reversed(ss))):
            for k in range(1, KMAX[tier] + 1):
                for rs in itertools.combinations(ISO_RULES, k):
                    for how in ('strings', 'objects'):
                        for seed_as in W5.SEED_AS:
                            instance(R, order, rs, form, how, seed_as=seed_as,
                                     fam='iso:%s>%s' % order)
        return R
    if fam == 'session':
        for second in W4.session_alphabet(tier):
            for k in range(1, KMAX[tier] + 1):
                for rs in itertools.combinations(W4.SESSION_RULES, k):
                    for mode in W4.SESSION_MODES:
                        session(R, (ss, second), rs, form, mode)
        return R
    for k in range(1, KMAX[tier] + 1):
        for rs in itertools.combinations(sorted(POOL), k):
            if form == 'ring' and any(POOL[r][1] is None for r in rs):
                continue
            for how in ('strings', 'objects'):
                instance(R, ss, rs, form, how)
    return R


def replay(w):
    R = Result()
    if w.get('kind') == 'session':
        session(R, tuple(w['steps']), tuple(w['rules']), w['form'], w['mode'])
    else:
        instance(R, tuple(w['seeds']), tuple(w['rules']), w['form'], w['how'],
                 seed_as=w.get('seed_as', 'text'), fam=w.get('fam'))
    return dict(violates=bool(R.violations),
                detail='\n'.join(v['msg'] for v in R.violations) or 'holds')
