"""C09 - reading RING text always ends with a query or a RING error.

0 deviations: the seeds (also laid out over several lines, and the long-input
family: every chain construct of the grammar with up to 1200 links, digit runs
up to 5000 digits).  1 deviation: every character-offset truncation;
every single-token deletion, duplication, substitution by and insertion of each
lexeme of the RING vocabulary.  2 deviations (thorough): all pairs of
token-level edits on the shortest seeds.  Plus all strings of length <= 4 (5)
over a 15-character alphabet and all sequences of <= 2 (3) RING keywords.
Label references across reactants (domains/w5_c09): every rule with two
reactants out of 5 (6) patterns of 1-3 atoms (three out of 2 (3) patterns), with
distinct or re-declared labels, x each spelling of the five two-label and six
one-label transformations x every ordered pair (every one) of the declared
labels, an undefined label and a reactant name as operands.
"Never hangs" is decided by a deterministic work budget on ParseState.peek.
"""
import itertools
import traceback

from ..runner import Result
from ..domains import ringtexts as RT
from ..domains import w5_c09 as W5

LEVEL = 'exploration'
BOUND = {'quick': 'all seeds; every truncation; every 1-token edit over %d '
                  'lexemes; all strings of length <= 4 over 15 characters; all '
                  'sequences of <= 2 of %d keywords; every seed in 4 multi-line '
                  'layouts with all truncations and 1-token deletions / '
                  'duplications; 14 chain constructs x 5 lengths up to 1200 '
                  'links; every digit token replaced by runs of up to 5000 '
                  'digits; label references across reactants: every ordered '
                  'pair of %d reactant patterns of 1-3 atoms and every ordered '
                  'triple of %d, labels distinct or re-declared, x %d two-label '
                  'and %d one-label transformations x every ordered pair '
                  '(every one) of the declared labels, an undefined label and '
                  'a reactant name, each followed by its electron-balancing '
                  'edits' % (len(RT.LEXEMES), len(RT.KEYWORDS),
                             len(W5.PAIR_SHAPES['quick']),
                             len(W5.TRIPLE_SHAPES['quick']),
                             len(W5.OPS2), len(W5.OPS1)),
         'thorough': 'more generated seeds; 2-token edits (reduced lexeme set) '
                     'of the 12 shortest seeds; strings of length <= 5; keyword '
                     'sequences of length <= 3; label references across '
                     'reactants: pairs over %d patterns, triples over %d, and '
                     'every two-label transformation also without its '
                     'balancing edits' % (len(W5.PAIR_SHAPES['thorough']),
                                          len(W5.TRIPLE_SHAPES['thorough']))}
RULE = ('deviation-bounded enumeration: every text within the stated edit '
        'distance of a seed, plus the complete short-string and '
        'keyword-sequence languages, and every rule of the label-reference '
        'family (reactant patterns x transformation x operand labels, '
        'complete within its bound), is passed to Read; non-trivial = the '
        'reader got past the first token (error position beyond line 1 column '
        '1, a reader error, NotImplementedError, or acceptance)')
ASSUMPTIONS = ['a RINGReaderError raised while a RecursionError is being '
               'handled (how /repo reports an exhausted recursion limit) is '
               'accepted only for texts of >= 80 tokens: the parser nests one '
               'level per link of a chain and needs >= ~110 links to exhaust '
               'the limit; on a shorter text it is reported as runaway '
               'recursion (a rule recursing without consuming input)',
               'work budget 2000 + 200*len(text) calls of ParseState.peek '
               '(measured maximum on valid and invalid input: ~11 per input '
               'character); a budget hit is re-run with a 20x budget before it '
               'is called a hang',
               'if ParseState/peek cannot be found the check falls back to a '
               'wall-clock watchdog and reports "consumed in full" as not '
               'evaluated',
               'long inputs: each right-recursive chain of the grammar with up '
               'to 1200 (thorough: 3000) links, digit runs up to 5000 digits; '
               'whether such a text is accepted or refused with a RING error '
               'is not judged, only that nothing else escapes',
               'label references across reactants: which of these rules is '
               'accepted and which is refused is not predicted (no reference '
               'reader for rules with several reactants); only the outcome '
               'class, the work budget and full consumption are judged']
MANIFEST = dict(
    technique='deviation-bounded exhaustive enumeration of reader inputs (0, 1, '
              '2 token edits of seeds; complete short-string languages) with a '
              'deterministic work budget',
    text='Every truncation and every one-token deletion, duplication, '
         'substitution and insertion (over the RING vocabulary plus undefined '
         'labels, unknown elements and non-ASCII tokens) of seeds covering the '
         'grammar, and the complete languages of short strings and keyword '
         'sequences, are read, and so is every rule with two or three small '
         'reactants that applies one transformation to every choice of '
         'operand labels (own reactant, other reactant, undefined, a '
         'reactant name); each must end, within a counted work budget, in '
         'a query of the announced kind with the text consumed in full, a '
         'RINGSyntaxError positioned inside the text, a RINGReaderError or '
         'NotImplementedError.',
    note='The budget counts parser look-ahead calls, not wall time; texts '
         'further than two token edits from a seed and long texts are not '
         'covered.',
    ref='5/C09')


MIN_TOKENS_FOR_DEEP = 80


class Hang(BaseException):
    pass


ST = dict(count=0, budget=10 ** 12, last=None, installed=None, rules=set())


def install():
    if ST['installed'] is not None:
        return ST['installed']
    from pgradd.RINGParser import Parser
    PS = getattr(Parser, 'ParseState', None)
    if PS is None or not hasattr(PS, 'peek') or not hasattr(PS, '__init__'):
        ST['installed'] = False
        return False
    orig_peek, orig_init, orig_parse = PS.peek, PS.__init__, PS.parse

    def peek(self, *a, **k):
        ST['count'] += 1
        if ST['count'] > ST['budget']:
            raise Hang()
        return orig_peek(self, *a, **k)

    def init(self, *a, **k):
        ST['last'] = self
        return orig_init(self, *a, **k)

    def parse(self, what=None, output=None):
        r = orig_parse(self, what, output)
        if isinstance(what, str):
            ST['rules'].add(what)
        return r
    PS.peek, PS.__init__, PS.parse = peek, init, parse
    ST['installed'] = True
    return True


def worker_init():
    install()


def where(exc):
    frames = traceback.extract_tb(exc.__traceback__)
    for fr in reversed(frames):
        if 'pgradd' in fr.filename:
            return '%s:%s' % (fr.filename.rsplit('/', 1)[-1], fr.name)
    return '?'


def classify(text, mult=1):
    """-> (class, key or None, detail)."""
    return classify0(text, mult)


def classify0(text, mult=1):
    from pgradd.RINGParser import Read
    from pgradd.Error import RINGSyntaxError, RINGReaderError
    ST['count'] = 0
    ST['last'] = None
    ST['budget'] = (2000 + 200 * len(text)) * mult
    try:
        r = Read(text)
    except Hang:
        if mult == 1:
            return classify0(text, 20)
        return 'hang', 'hang', 'more than %d look-ahead calls for %d characters' % (
            ST['budget'], len(text))
    except RINGSyntaxError as e:
        lines = text.split('\n')
        try:
            ok = 1 <= e.lineno <= len(lines) and 1 <= e.colno <= len(lines[e.lineno - 1]) + 1
        except Exception:      # noqa
            ok = False
        if not ok:
            return ('syntax-error-outside-text', 'syntax-error-outside-text',
                    'position (%r, %r) is not inside the text' % (
                        getattr(e, 'lineno', None), getattr(e, 'colno', None)))
        try:
            str(e)
        except Exception as e2:     # noqa
            return ('syntax-error-unprintable', 'syntax-error-unprintable:' +
                    type(e2).__name__, 'str() of the error raised %s' % type(e2).__name__)
        return ('RINGSyntaxError@1:1' if (e.lineno, e.colno) == (1, 1)
                else 'RINGSyntaxError'), None, ''
    except RINGReaderError as e:
        # /repo reports an exhausted recursion limit as a RINGReaderError: right
        # for a long text (one level per link of a chain: >= ~110 links), a
        # non-consuming recursion if the text has too few tokens for that
        if (isinstance(e.__context__, RecursionError)
                and len(RT.TOKRE.findall(text)) < MIN_TOKENS_FOR_DEEP):
            return ('runaway-recursion', 'runaway-recursion',
                    'recursion limit exhausted on a text of %d tokens' %
                    len(RT.TOKRE.findall(text)))
        try:
            str(e)
        except Exception as e2:     # noqa
            return ('reader-error-unprintable', 'reader-error-unprintable',
                    'str() raised %s' % type(e2).__name__)
        return 'RINGReaderError', None, ''
    except NotImplementedError:
        return 'NotImplementedError', None, ''
    except RecursionError:
        return 'internal:RecursionError', 'internal:RecursionError', 'RecursionError'
    except Exception as e:       # noqa
        w = where(e)
        return ('internal:' + type(e).__name__,
                'internal:%s@%s' % (type(e).__name__, w),
                '%s at %s: %s' % (type(e).__name__, w, str(e)[:200]))
    kind = type(r).__name__
    head = text.lstrip()
    for kw in ('positive', 'negative', 'neutral', 'aromatic', 'olefinic',
               'paraffinic', 'cyclic', 'linear'):
        if head.startswith(kw):
            head = head[len(kw):].lstrip()
    announced = 'ReactionQuery' if head.startswith('rule') else 'MolQuery'
    if kind != announced:
        return ('wrong-kind', 'wrong-kind', 'text announces %s, Read returned %s'
                % (announced, kind))
    ps = ST['last']
    if ST['installed'] and ps is not None and hasattr(ps, 'sidx'):
        rest = text[ps.sidx:]
        if rest.strip(' \n\t') != '':
            return ('accepted-unconsumed', 'accepted-unconsumed',
                    'accepted, but %r was never read' % rest[:60])
        return 'ok:' + kind, None, ''
    return 'ok:%s(consumption not evaluated)' % kind, None, ''


def run_text(R, text, family):
    cls, key, detail = classify(text)
    R.evals += 1
    if cls != 'RINGSyntaxError@1:1':
        R.nontrivial += 1
    R.outcomes[cls] += 1
    if key:
        R.violation('%s' % key, '%r: %s' % (text[:300], detail),
                    dict(kind='text', text=text, family=family))
    return cls


def shards(tier, seed):
    out = []
    ss = RT.seeds(tier)
    for i in range(len(ss)):
        out.append(('seed', i))
    if tier == 'thorough':
        order = sorted(range(len(ss)), key=lambda i: len(RT.TOKRE.findall(ss[i])))[:12]
        for i in order:
            n = len(RT.TOKRE.findall(ss[i]))
            for p in range(n):
                out.append(('two', i, p))
    for i in range(len(ss)):
        out.append(('layout', i))
    for n in RT.LONG_N[tier]:
        out.append(('long', n))
    out.append(('digits',))
    for sh in W5.shape_tuples(tier):
        for shared in (False, True):
            out.append(('xr', sh, shared))
    for c in RT.SHORT_ALPHABET:
        out.append(('short', c))
    for k in range(len(RT.KEYWORDS)):
        out.append(('kw', k))
    return out


LAYOUT_K = (1, 2, 3, 5)


def layout(toks, k):
    lines = [' '.join(toks[i:i + k]) for i in range(0, len(toks), k)]
    return '\n'.join('  ' * (j % 3) + ln for j, ln in enumerate(lines))


LEX2 = ['fragment', 'labeled', 'bond', 'to', 'C', '{', '}', '(', ')', ',', '!',
        '?', '1', 'c1', 'zz9', 'group', 'single', 'reactant', 'rule']


def run_shard(shard, tier):
    R = Result()
    install()
    ss = RT.seeds(tier)
    if shard[0] == 'seed':
        s = ss[shard[1]]
        cls = run_text(R, s, 'seed')
        R.extra['seeds'] += 1
        if cls.startswith('ok:'):
            R.extra['seeds_accepted'] += 1
        for i in range(len(s)):
            run_text(R, s[:i], 'truncation')
        toks = RT.TOKRE.findall(s)
        seen = set()
        for how, t in RT.one_edits(toks):
            text = ' '.join(t)
            if text in seen:
                continue
            seen.add(text)
            run_text(R, text, how)
        R.sample(dict(seed=s[:120], variant=text[:120]), limit=1)
    elif shard[0] == 'two':
        s = ss[shard[1]]
        toks = RT.TOKRE.findall(s)
        p = shard[2]
        seen = set()
        firsts = [toks[:p] + toks[p + 1:], toks[:p] + [toks[p]] + toks[p:]]
        firsts += [toks[:p] + [a] + toks[p + 1:] for a in LEX2]
        firsts += [toks[:p] + [a] + toks[p:] for a in LEX2]
        for t1 in firsts:
            for how, t2 in RT.one_edits(t1, LEX2):
                text = ' '.join(t2)
                if text in seen:
                    continue
                seen.add(text)
                run_text(R, text, 'two-edits')
        R.sample(dict(seed=s[:120], two_edit_variant=text[:120]), limit=1)
    elif shard[0] == 'layout':
        # the same seed laid out over several lines (k tokens per line, varying
        # indentation): every truncation, every one-token deletion/duplication
        toks = RT.TOKRE.findall(ss[shard[1]])
        seen = set()
        for k in LAYOUT_K:
            base = layout(toks, k)
            for i in range(len(base) + 1):
                if base[:i] not in seen:
                    seen.add(base[:i])
                    run_text(R, base[:i], 'layout%d-truncation' % k)
            edits = []
            for i in range(len(toks)):
                edits.append(toks[:i] + toks[i + 1:])
                edits.append(toks[:i] + [toks[i]] + toks[i:])
                if tier == 'thorough':
                    edits += [toks[:i] + [a] + toks[i + 1:] for a in LEX2]
            for t in edits:
                text = layout(t, k)
                if text not in seen:
                    seen.add(text)
                    run_text(R, text, 'layout%d-edit' % k)
        R.sample(dict(layout=layout(toks, 3)[:160]), limit=1)
    elif shard[0] == 'long':
        for name, text in RT.long_texts(shard[1]):
            cls = run_text(R, text, 'long:%s:%d' % (name, shard[1]))
            R.extra['long:%s:%s' % (name, cls.split('@')[0])] += 1
            # and cut in the middle / one character short
            run_text(R, text[:len(text) // 2], 'long-truncated')
            run_text(R, text[:-1], 'long-truncated')
    elif shard[0] == 'digits':
        # every digit token of every seed replaced by runs of digits
        for s in ss:
            toks = RT.TOKRE.findall(s)
            for i, t in enumerate(toks):
                if len(t) == 1 and t.isdigit():
                    for L in RT.DIGIT_RUNS:
                        for d in ('7', '0'):
                            run_text(R, ' '.join(toks[:i] + [d * L] + toks[i + 1:]),
                                     'digit-run')
            # all digit tokens at once (sums of parsed numbers)
            if sum(1 for t in toks if len(t) == 1 and t.isdigit()) >= 2:
                for L in RT.DIGIT_RUNS + (4300,):
                    for d in ('7', '9'):
                        run_text(R, ' '.join(d * L if (len(t) == 1 and t.isdigit()) else t
                                             for t in toks), 'digit-run-all')
    elif shard[0] == 'xr':
        # label references across reactants (domains/w5_c09)
        text = None
        for fam, text in W5.rule_texts(shard[1], shard[2], tier):
            cls = run_text(R, text, fam)
            R.extra['%s:%s' % (fam, cls)] += 1
        R.sample(dict(label_reference_rule=text), limit=1)
    elif shard[0] == 'short':
        n = 4 if tier == 'quick' else 5
        if shard[1] == RT.SHORT_ALPHABET[0]:
            run_text(R, '', 'short')
        for L in range(0, n):
            for rest in itertools.product(RT.SHORT_ALPHABET, repeat=L):
                run_text(R, shard[1] + ''.join(rest), 'short')
        R.sample(dict(short_string=repr(shard[1] + 'C1{')), limit=1)
    else:
        n = 2 if tier == 'quick' else 3
        k0 = RT.KEYWORDS[shard[1]]
        for L in range(0, n):
            for rest in itertools.product(RT.KEYWORDS, repeat=L):
                run_text(R, ' '.join((k0,) + rest), 'keywords')
        R.sample(dict(keyword_sequence=k0 + ' ' + RT.KEYWORDS[3]), limit=1)
    for r_ in ST['rules']:
        R.extra['max_rule:' + r_] = 1
    return R


def finish(merged, tier):
    try:
        from pgradd.RINGParser import Grammar
        total = len(Grammar.enhanced_grammar[1])
    except Exception:     # noqa
        total = None
    covered = sorted(k[9:] for k in merged.extra if k.startswith('max_rule:'))
    for k in list(merged.extra):
        if k.startswith('max_rule:'):
            del merged.extra[k]
    missing = []
    try:
        missing = sorted(set(Grammar.enhanced_grammar[1]) - set(covered))
    except Exception:     # noqa
        pass
    return dict(grammar_rules_total=total, grammar_rules_succeeded=len(covered),
                grammar_rules_never_succeeded=missing)


def replay(w):
    install()
    cls, key, detail = classify(w['text'])
    return dict(violates=bool(key), detail='%s %s' % (cls, detail))
