"""C03 - descriptors do not depend on how the molecule is written.

For every molecule with <= 6 heavy atoms: ALL permutations of the heavy atoms,
as a SMILES string (order-controlling writer) and as a renumbered molecule
object; for molecules with <= 5 (7) atoms in total (+ ethene and methanol; thorough: + ethane, 8 atoms) ALL permutations of all
atoms, hydrogens included, on the molecule-object path; for larger curated
molecules all injective placements of every k-subset (k <= 2 quick, 3
thorough) of heavy atoms; plus input forms (explicit hydrogens, Kekule vs
aromatic, every rooting RDKit can emit, object vs SMILES).  Oracle:
differential - every spelling must give the dictionary (or failure) of the
canonical spelling; estimates compared for object vs string input.

Third wave (domains/w3_c03.py): two molecule families the size bound cannot
reach, each molecule renumbered (string and object path) by moving every
single atom to the first and to the last position, plus the full reversal
(thorough: every atom at every position): (a) bifunctional molecules - every
unordered pair of 16 end groups (one per remap source of the shipped schemes:
CH3 / OH on sp3, C=C, C#C, benzene, C=O, O ...) joined directly and through
one CH2; (b) ring pairs - every unordered pair of a ring alphabet
(cyclopropane ... cyclohexane, benzene, cyclohexene, oxirane, oxane; thorough
+ cycloheptane, 1,3-cyclohexadiene) joined by a bond, through CH2, fused and
spiro (thorough: at every ring atom / ring bond).

Fourth wave (domains/w4_c03.py): substituted ethenes R1R2C=CR3R4 with R over
{H, methyl, ethyl, tert-butyl} (thorough: + isopropyl), every constitution
once and, where the double bond can carry a label, unlabelled / E / Z - the
tri- and tetra-substituted cis/trans-labelled double bonds the curated list
(1,2-disubstituted only) lacked.  Each molecule is renumbered (string and
object path) by every single-atom move and the reversal, and by all 24
relative orders of every quadruple (substituent, C, C', substituent) a
cis/trans statement can name (thorough: every atom at every position, and on
the scheme files with a stereo constraint all <= 720 relative orders of the
two double-bond carbons and their neighbours); and it is put through every
input form (rootings, Kekule / explicit-hydrogen spellings, objects).

Fifth wave (domains/w5_c03.py): molecule OBJECTS in every state of
preparation.  Until now every object given to GetDescriptors was a fully
sanitised product of Chem.MolFromSmiles (rings perceived, flags set).  Now
every molecule of the input-form list and every ring pair is also given as
the product of: source {parsed unsanitised from the canonical / from the
Kekule spelling, built atom by atom with RWMol; thorough + built in reverse
order} x ring information {never perceived, FastFindRings, GetSSSR,
GetSymmSSSR} x derived flags {none, conjugation + hybridisation; thorough all
4 subsets} x hydrogens {implicit, explicit atoms}.  Each object is first
checked to denote the molecule, then must give the descriptors (or failure)
of the canonical SMILES.
"""
import itertools

from ..runner import Result
from ..domains import schemes as SD
from ..domains import molecules as MD
from ..domains import libs
from ..domains import w3_c03 as W3
from ..domains import w4_c03 as W4
from ..domains import w5_c03 as W5

LEVEL = 'exploration'
FULL_SCHEMES = {'quick': ['BensonGA', 'GRWSurface2018'], 'thorough': None}
BIG = ['C1CC1CCCCCC', 'CCCCCCCCC', 'CC(C)CC(C)CC(C)C', 'C1CCC2CCCCC2C1',
       'CC1CCCCC1CC', 'OCC(O)C(O)CCCC', 'C1CC1C1CC1CCC', 'CC(=O)OCCCCCC',
       'Cc1ccccc1CC', 'C([Pt])C([Pt])CCCCCC']
BIG_QUICK = ['C1CC1CCCCCC', 'CC(C)CC(C)CC(C)C', 'C1CCC2CCCCC2C1',
             'C([Pt])C([Pt])CCCCCC']
BOUND = {
    'quick': 'all heavy-atom permutations (string and object path) of M(4) C/O '
             'with radicals + curated molecules with <= 5 heavy atoms, on 2 '
             'scheme files (one gas, one surface); all-atom permutations for '
             '<= 5 atoms, ethene and methanol; placements of all 1- and 2-subsets for molecules '
             'with 6 heavy atoms and 4 larger ones; input forms on all 6 distinct schemes; '
             'on the same 2 scheme files: 252 bifunctional molecules (all unordered pairs of '
             '16 end groups x {direct bond, CH2 spacer}, 2-17 heavy atoms) and 121 ring pairs '
             '(all unordered pairs of 8 rings x {bond, CH2, fused, spiro} at the declared '
             'attachment atom / fusion bond, benzene fused at either Kekule bond; fused '
             'benzenoids excepted = K2), each under the identity, every single atom moved '
             'to the first / to the last position, and the full reversal, string and object path; '
             'on the scheme files of those 2 that contain a cis/trans (stereo double bond) '
             'constraint (BensonGA): 97 substituted ethenes R1R2C=CR3R4 (all unordered pairs of '
             'unordered pairs over {H, Me, Et, tBu}; unlabelled, E and Z where the bond can carry '
             'a label; 2-18 heavy atoms), each under the single-atom moves and the reversal as '
             'above plus all 24 relative orders of every quadruple (substituent, C, C\', '
             'substituent) with the other atoms in place (5970 renumberings, string and object '
             'path), and each in every input form; '
             'on the same 2 scheme files every molecule of the input-form list (curated '
             'list + 10 large + 5 fused-benzenoid molecules) and each of the 121 ring pairs as '
             'a molecule OBJECT in every state of preparation: source {parsed with '
             'sanitize=False from the canonical SMILES, from the Kekule SMILES where that text '
             'differs, built atom by atom with RWMol} x ring information {never perceived, '
             'FastFindRings, GetSSSR, GetSymmSSSR} x derived flags {none, SetConjugation + '
             'SetHybridization} x hydrogens {implicit, AddHs} = 32 (aromatic molecules 48) '
             'objects per molecule',
    'thorough': 'all permutations up to 6 heavy atoms, on all 6 distinct scheme files, all-atom '
                'permutations for <= 7 atoms and ethane, placements of all 3-subsets; '
                'on all 6 scheme files the bifunctional molecules and the ring pairs over 10 '
                'rings joined at every ring atom / ring bond, each under all 1-subset '
                'placements (every atom at every position) and the full reversal; '
                'on all 6 scheme files the 230 substituted ethenes over {H, Me, Et, iPr, tBu} '
                '(unlabelled / E / Z), each under all 1-subset placements, the reversal and the '
                '24 relative orders of every (substituent, C, C\', substituent) quadruple, on the '
                'scheme files with a stereo constraint (BensonGA, PPY) also under all <= 720 '
                'relative orders of the double-bond carbons and their neighbours; every input '
                'form of each; on all 6 scheme files the object states of every molecule of the '
                'input-form list and of the 478 thorough ring pairs: source {parsed unsanitised '
                'canonical / Kekule, built with RWMol, built in reverse atom order} x the 4 ring '
                'information states x all 4 subsets of {SetConjugation, SetHybridization} x '
                'hydrogens {implicit, AddHs} = 96 (aromatic 128) objects per molecule'}
RULE = ('every spelling/renumbering in the stated space is decomposed and '
        'compared with the canonical spelling of the same molecule; '
        'non-trivial = the spelling differs from the canonical one and the '
        'molecule has at least two heavy atoms or a correction descriptor; '
        'for the ring pairs the counter ringpair_orders_other_ring_first '
        'counts the renumberings under which RDKit lists the rings in '
        'another size order than for the canonical spelling; for the '
        'substituted ethenes the counters ethene_strings_double_bond_from_'
        '{lower,higher}_ranked_end count the SMILES spellings in which the '
        'double bond is written starting from its lower / higher '
        'canonically ranked carbon, ethene_labelled_cases the cases on a '
        'molecule with an E/Z label; for the object states the counters '
        'objstate_objects_with_unperceived_rings_on_a_ring_molecule and '
        'objstate_of_those_with_fewer_than_6_carbons count the objects that '
        'reach GetDescriptors without ring information although the '
        'molecule has a ring (all / molecules with < 6 carbon atoms), '
        'objstate_objects_with_fast_rings_differing_from_sssr those whose '
        'FastFindRings ring list has other ring sizes than the SSSR')
ASSUMPTIONS = ['every generated spelling is first checked to parse back to the '
               'same canonical isomeric SMILES (a spelling that does not is a '
               'harness error, never a case)',
               'RDKit random-order SMILES are not used (that would be sampling)',
               'placements of k-subsets are exhaustive over the index tuples a '
               'matched fragment of <= k heavy atoms can receive, not over all '
               'renumberings of the large molecules',
               'bifunctional molecules and ring pairs (2-17 heavy atoms) are '
               'renumbered by single-atom moves only: exhaustive over which '
               'atom is numbered first / last and over the relative order of '
               'every pair of atoms (hence of every pair of group centres and '
               'of which ring holds the lowest-numbered atom), not over all '
               'renumberings',
               'substituted ethenes (2-18 heavy atoms): besides the single-atom '
               'moves, exhaustive over the relative order of the four atoms any '
               'cis/trans statement names (quick) / of the double-bond carbons '
               'and all their neighbours (thorough, stereo schemes), the other '
               'atoms staying in place; not over all renumberings.  Their '
               'labelled spellings are written by RDKit (MolToSmiles of the '
               'renumbered object, canonical=False), which decides where the '
               '/ and \\ marks go',
               'object states (fifth wave): the object always carries the '
               'chemical information itself - atoms, bonds, charges, hydrogen '
               'counts, radical counts (Chem.AssignRadicals after an '
               'unsanitised parse) and, for molecules with an E/Z label, the '
               'perceived label (Chem.AssignStereochemistry) - and has its '
               'property cache updated (AddHs needs that); only DERIVED '
               'information (rings, conjugation, hybridisation, aromaticity '
               'perception) is varied.  Every object is checked before use: a '
               'sanitised copy must have the canonical isomeric SMILES of the '
               'molecule (otherwise harness error, never a case)',
               'ring joins RDKit cannot sanitise are not molecules and are left '
               'out; fused benzene + benzene is finding K2 (CURATED_FUSED)']
MANIFEST = dict(
    technique='exhaustive enumeration of atom renumberings and input forms, '
              'differential oracle against the canonical spelling',
    text='All heavy-atom permutations of every small molecule as SMILES text '
         'and as renumbered molecule objects, all all-atom permutations of the '
         'smallest ones, all placements of small atom subsets in larger '
         'molecules (the index-collision class), all single-atom moves in '
         'every molecule made of two functional groups or of two rings '
         '(joined by a bond, a CH2, fused or spiro), all single-atom moves '
         'and all relative orders of the atoms a cis/trans statement names in '
         'every substituted ethene R1R2C=CR3R4 over {H, Me, Et, tBu} with '
         'and without E/Z labels, all input forms, and molecule '
         'objects in every state of preparation (unsanitised parse or RWMol '
         'construction x ring information never perceived / fast / SSSR / '
         'symmetrised x conjugation and hybridisation flags unset / set x '
         'implicit / explicit hydrogens), must '
         'give the same descriptors (or the same failure) as the canonical '
         'spelling on the shipped scheme files; object and string input must '
         'give the same estimates.',
    note='Fused benzenoid ring systems are a recorded finding (K2); '
         'renumberings of molecules with > 6 heavy atoms are covered only '
         'through subset placements / single-atom moves (substituted '
         'ethenes: also the relative orders of the double-bond atoms and '
         'their neighbours).',
    ref='5/C03')


def schemes_for(tier):
    return FULL_SCHEMES[tier] or SD.distinct_schemes()


_IMPL = {}


def scheme(name):
    if name not in _IMPL:
        from pgradd.GroupAdd.Scheme import GroupAdditivityScheme
        _IMPL[name] = GroupAdditivityScheme.Load(SD.scheme_path(name))
    return _IMPL[name]


def desc(S, x):
    from pgradd.Error import PatternMatchError
    try:
        d = S.GetDescriptors(x)
        return ('ok', tuple(sorted((str(k), round(float(v), 9)) for k, v in d.items())))
    except PatternMatchError:
        return ('PME',)
    except Exception as e:       # noqa
        return ('EXC', type(e).__name__)


def is_fused_benzenoid(m):
    ri = m.GetRingInfo()
    rings = [r for r in ri.BondRings() if len(r) == 6 and
             all(m.GetBondWithIdx(b).GetIsAromatic() and
                 m.GetBondWithIdx(b).GetBeginAtom().GetSymbol() == 'C' and
                 m.GetBondWithIdx(b).GetEndAtom().GetSymbol() == 'C' for b in r)]
    for a in range(len(rings)):
        for b in range(a + 1, len(rings)):
            if set(rings[a]) & set(rings[b]):
                return True
    return False


def placements(n, k):
    """All renumberings that put each k-subset of atoms at every k-tuple of
    distinct positions, the remaining atoms keeping their relative order."""
    seen = set()
    for sub in itertools.combinations(range(n), k):
        rest = [i for i in range(n) if i not in sub]
        for pos in itertools.permutations(range(n), k):
            order = [None] * n
            for a, p in zip(sub, pos):
                order[p] = a
            it = iter(rest)
            for p in range(n):
                if order[p] is None:
                    order[p] = next(it)
            t = tuple(order)
            if t not in seen:
                seen.add(t)
                yield t


class Mol(object):
    def __init__(self, smi):
        from rdkit import Chem
        self.smi = smi
        self.m = Chem.MolFromSmiles(smi)
        self.canon = Chem.MolToSmiles(self.m)
        # spellings of stereo molecules and of molecules with '~' bonds are
        # produced by RDKit from the renumbered object (the ring-closure
        # writer cannot carry those marks)
        self.stereo = MD.has_stereo(self.m) or any(
            str(b.GetBondType()) in ('UNSPECIFIED', 'DATIVE', 'ZERO')
            for b in self.m.GetBonds())
        self.kek = Chem.Mol(self.m)
        Chem.Kekulize(self.kek, clearAromaticFlags=True)
        self.n = self.m.GetNumAtoms()
        self.fused = is_fused_benzenoid(self.m)


def check_variant(R, name, S, M, base, how, x, label):
    """x: a SMILES string or a Mol object denoting M."""
    from rdkit import Chem
    if isinstance(x, str):
        back = Chem.MolFromSmiles(x)
        if back is None or Chem.MolToSmiles(back) != M.canon:
            raise AssertionError('harness: spelling %r does not denote %s' % (x, M.canon))
    d = desc(S, x)
    R.evals += 1
    if M.n >= 2:
        R.nontrivial += 1
    if d == base:
        R.outcomes['%s:same' % how] += 1
        return True
    R.outcomes['%s:differs' % how] += 1
    wit = dict(kind='variant', scheme=name, smiles=M.smi, how=how, label=label,
               text=x if isinstance(x, str) else None)
    if d[0] == 'EXC':
        key = '%s:raises-%s' % (how, d[1])
    elif M.fused:
        key = 'order-dependent:fused-benzenoid:%s' % M.canon
    elif how == 'objstate':
        key = 'objstate:object-differs-from-its-smiles'
    else:
        key = '%s:order-dependent' % how
    R.violation(key, '[%s] %s written as %s (%s): %r, canonical spelling gives %r'
                % (name, M.canon, x if isinstance(x, str) else 'molecule object',
                   label, d, base), wit)
    return False


def object_for(M, order):
    from rdkit import Chem
    return Chem.RenumberAtoms(M.m, list(order))


def string_for(M, order):
    from rdkit import Chem
    if M.stereo:
        return Chem.MolToSmiles(Chem.RenumberAtoms(M.m, list(order)), canonical=False)
    return MD.writer(M.kek, order)


def run_perms(R, name, smi, tier, only=None, stride=None):
    from rdkit import Chem
    S = scheme(name)
    M = Mol(smi)
    base = desc(S, M.canon)
    if M.n <= (5 if tier == 'quick' else 6):
        orders = itertools.permutations(range(M.n))
        kind = 'perm'
    else:
        k = 2 if tier == 'quick' else 3
        orders = itertools.chain(placements(M.n, 1), placements(M.n, k) if k == 2
                                 else itertools.chain(placements(M.n, 2), placements(M.n, 3)))
        kind = 'placement'
    ok_s = ok_o = True
    for num, order in enumerate(orders):
        if stride is not None and num % stride[1] != stride[0]:
            continue
        if only is not None and list(order) != only:
            continue
        if ok_s or only is not None:
            ok_s = check_variant(R, name, S, M, base, 'string-' + kind,
                                 string_for(M, order), list(order))
        if ok_o or only is not None:
            ok_o = check_variant(R, name, S, M, base, 'object-' + kind,
                                 object_for(M, order), list(order))
        if not ok_s and not ok_o:
            break
    # all atoms, hydrogens included, on the object path
    mh = Chem.AddHs(M.m)
    lim = 5 if tier == 'quick' else 7
    if (2 <= mh.GetNumAtoms() <= lim or M.canon in ('C=C', 'CO') or
            (tier == 'thorough' and M.canon == 'CC')) and only is None:
        for order in itertools.permutations(range(mh.GetNumAtoms())):
            if not check_variant(R, name, S, M, base, 'object-allatoms',
                                 Chem.RenumberAtoms(mh, list(order)), list(order)):
                break
    R.sample(dict(scheme=name, molecule=M.canon, spelling=string_for(M, tuple(reversed(range(M.n))))),
             limit=1)


W3_FAMILIES = ('bifunc', 'ringpair')


def w3_molecules(fam, tier):
    return [c for c, _ in (W3.bifunctional() if fam == 'bifunc'
                           else W3.ring_pairs(tier))]


def w3_orders(n, tier):
    """quick: identity, every atom moved to the front / to the back, reversal;
    thorough: every atom at every position, reversal (a superset)."""
    if tier == 'quick':
        return W3.moves(n)
    out = list(placements(n, 1))
    rev = tuple(reversed(range(n)))
    if rev not in out:
        out.append(rev)
    return out


def run_w3(R, name, fam, smi, tier, only=None):
    """One molecule of a third-wave family under every renumbering of
    w3_orders (or the single renumbering `only`), string and object path."""
    S = scheme(name)
    M = Mol(smi)
    base = desc(S, M.canon)
    rings0 = W3.ring_size_sequence(M.m) if fam == 'ringpair' else None
    ok_s = ok_o = True
    for order in ([tuple(only)] if only is not None else w3_orders(M.n, tier)):
        if ok_s or only is not None:
            ok_s = check_variant(R, name, S, M, base, 'string-' + fam,
                                 string_for(M, order), list(order))
        if ok_o or only is not None:
            obj = object_for(M, order)
            if rings0 is not None and W3.ring_size_sequence(obj) != rings0:
                R.extra['ringpair_orders_other_ring_first'] += 1
            ok_o = check_variant(R, name, S, M, base, 'object-' + fam,
                                 obj, list(order))
        if not ok_s and not ok_o:
            break
    R.sample(dict(scheme=name, family=fam, molecule=M.canon,
                  spelling=string_for(M, tuple(reversed(range(M.n))))), limit=1)


# ------------------------------------------------------------ fourth wave

def stereo_schemes(names):
    """Those of `names` whose scheme file holds a cis/trans constraint (read
    from the YAML text, not through pgradd)."""
    return [n for n in names
            if 'stereo double bond' in open(SD.scheme_path(n)).read()]


def w4_schemes(tier):
    """quick: the scheme files of the quick list with a stereo constraint
    (BensonGA); thorough: all distinct scheme files."""
    return stereo_schemes(schemes_for(tier)) if tier == 'quick' \
        else list(schemes_for(tier))


def w4_molecules(tier):
    return [s for s, _ in W4.ethenes(tier)]


def w4_orders(name, M, tier):
    """quick: identity, single-atom moves, reversal, and all 24 relative
    orders of every (substituent, C, C', substituent) quadruple; thorough:
    every atom at every position instead of the moves, and on the schemes
    with a stereo constraint all relative orders of the double-bond carbons
    and their neighbours (supersets)."""
    if tier == 'quick':
        out = list(W3.moves(M.n))
    else:
        out = list(placements(M.n, 1))
        out.append(tuple(reversed(range(M.n))))
    out += W4.core_first_orders(M.m)
    if tier != 'quick' and stereo_schemes([name]):
        out += W4.core_orders(M.m)
    seen, res = set(), []
    for o in out:
        if o not in seen:
            seen.add(o)
            res.append(o)
    return res


def run_w4(R, name, smi, tier, only=None):
    """One substituted ethene under every renumbering of w4_orders (or the
    single renumbering `only`), string and object path."""
    from rdkit import Chem
    S = scheme(name)
    M = Mol(smi)
    base = desc(S, M.canon)
    labelled = MD.has_stereo(M.m)
    ok_s = ok_o = True
    for order in ([tuple(only)] if only is not None else w4_orders(name, M, tier)):
        if ok_s or only is not None:
            x = string_for(M, order)
            side = W4.bond_written_first(Chem.MolFromSmiles(x))
            if side != 'tie':
                R.extra['ethene_strings_double_bond_from_%s_ranked_end' % (
                    'lower' if side == 'low-first' else 'higher')] += 1
            R.extra['ethene_labelled_cases'] += int(labelled)
            ok_s = check_variant(R, name, S, M, base, 'string-ethene', x, list(order))
        if ok_o or only is not None:
            R.extra['ethene_labelled_cases'] += int(labelled)
            ok_o = check_variant(R, name, S, M, base, 'object-ethene',
                                 object_for(M, order), list(order))
        if not ok_s and not ok_o:
            break
    R.sample(dict(scheme=name, family='ethene', molecule=M.canon,
                  spelling=string_for(M, tuple(reversed(range(M.n))))), limit=1)


# ------------------------------------------------------------- fifth wave

def w5_molecules(name, tier):
    """The input-form list of the scheme plus the ring pairs of the tier,
    once each (by canonical SMILES)."""
    out, seen = [], set()
    for s in (SD.molecules_for(name, 'quick') + BIG + MD.CURATED_FUSED +
              [c for c, _ in W3.ring_pairs(tier)]):
        c = MD.canon(s)
        if c not in seen:
            seen.add(c)
            out.append(s)
    return out


def run_objstates(R, name, smis, tier, only=None):
    """Every molecule of `smis` as a molecule object in every state of
    preparation of W5.labels(tier) (or the single state `only`)."""
    S = scheme(name)
    for smi in smis:
        M = Mol(smi)
        base = desc(S, M.canon)
        labelled = MD.has_stereo(M.m)
        ktext = W5.kekule_text(M.m, M.kek, M.stereo)
        differs = ktext != M.canon
        has_ring = M.m.GetRingInfo().NumRings() > 0
        carbons = sum(1 for a in M.m.GetAtoms() if a.GetAtomicNum() == 6)
        sssr = None
        for label in ([only] if only is not None else W5.labels(tier, differs)):
            x = W5.state(M.canon, ktext, labelled, label)
            if not W5.denotes(x, M.canon):
                raise AssertionError('harness: object state %r of %s does not '
                                     'denote the molecule' % (label, M.canon))
            if has_ring:
                if not W5.rings_known(x):
                    R.extra['objstate_objects_with_unperceived_rings_on_a_ring_molecule'] += 1
                    R.extra['objstate_of_those_with_fewer_than_6_carbons'] += int(carbons < 6)
                elif '|rings=fast|' in label:
                    if sssr is None:
                        sssr = sorted(len(r) for r in M.m.GetRingInfo().AtomRings())
                    if sorted(len(r) for r in x.GetRingInfo().AtomRings()) != sssr:
                        R.extra['objstate_objects_with_fast_rings_differing_from_sssr'] += 1
            check_variant(R, name, S, M, base, 'objstate', x, label)
        R.sample(dict(scheme=name, family='objstate', molecule=M.canon,
                      states=W5.labels(tier, differs)[:6]), limit=1)


def forms(M):
    """Input forms: (label, x)."""
    from rdkit import Chem
    out = []
    m = M.m
    for root in range(M.n):
        for canonical in (True, False):
            try:
                out.append(('rooted@%d/%s' % (root, canonical),
                            Chem.MolToSmiles(m, rootedAtAtom=root, canonical=canonical)))
            except Exception:     # noqa
                pass
    out.append(('kekule', Chem.MolToSmiles(M.kek, kekuleSmiles=True) if not M.stereo
                else Chem.MolToSmiles(m, kekuleSmiles=True)))
    out.append(('all-bonds-explicit', Chem.MolToSmiles(m, allBondsExplicit=True)))
    out.append(('all-H-explicit', Chem.MolToSmiles(m, allHsExplicit=True)))
    mh = Chem.AddHs(m)
    out.append(('explicit-H-atoms', Chem.MolToSmiles(mh)))
    out.append(('object', Chem.Mol(m)))
    out.append(('object-with-H', mh))
    if any(a.GetIsAromatic() for a in m.GetAtoms()) and not M.stereo:
        out.append(('aromatic-writer', MD.writer(m, list(range(M.n)), aromatic=True)))
        out.append(('aromatic-writer-reversed',
                    MD.writer(m, list(reversed(range(M.n))), aromatic=True)))
        out.append(('object-kekulised', Chem.Mol(M.kek)))
    return out


def fingerprint(m):
    """What a caller can see of its own molecule object."""
    from rdkit import Chem
    return (Chem.MolToSmiles(m), m.GetNumAtoms(),
            tuple(str(b.GetBondType()) for b in m.GetBonds()),
            tuple(a.GetIsAromatic() for a in m.GetAtoms()),
            tuple(tuple(sorted(a.GetPropsAsDict(includePrivate=False,
                                                 includeComputed=False)))
                  for a in m.GetAtoms()))


def run_forms(R, name, smis, only=None):
    S = scheme(name)
    for smi in smis:
        M = Mol(smi)
        base = desc(S, M.canon)
        for label, x in forms(M):
            if only is not None and label != only:
                continue
            fp = None if isinstance(x, str) else fingerprint(x)
            check_variant(R, name, S, M, base, 'form', x, label)
            if fp is not None:
                # a caller-owned object: untouched by the call, and usable again
                R.evals += 1
                R.nontrivial += 1
                wit = dict(kind='variant', scheme=name, smiles=M.smi, how='form',
                           label=label, text=None)
                if fingerprint(x) != fp:
                    R.outcomes['object:modified'] += 1
                    R.violation('form:callers-object-modified',
                                '[%s] GetDescriptors modified the molecule object it was '
                                'given (%s, %s)' % (name, M.canon, label), wit)
                elif desc(S, x) != base:
                    R.outcomes['object:second-call-differs'] += 1
                    R.violation(('order-dependent:fused-benzenoid:%s' % M.canon) if M.fused
                                else 'form:second-call-on-same-object-differs',
                                '[%s] decomposing the same molecule object (%s, %s) a '
                                'second time gives %r, first time / SMILES %r' % (
                                    name, M.canon, label, desc(S, x), base), wit)
                else:
                    R.outcomes['object:reusable'] += 1
        R.sample(dict(scheme=name, molecule=M.canon,
                      forms=[l for l, _ in forms(M)][:8]), limit=1)


def run_estimates(R, name):
    """Object input vs string input: identical estimates (incl. the
    elemental-entropy reference, which is computed from the remembered
    input)."""
    from rdkit import Chem
    lib = libs.load(name)
    for smi in ['CCCCCC', 'CC(C)C', 'C1CCCCC1', 'CCO', 'C=CC', 'c1ccccc1'] + (
            ['C([Pt])C[Pt]', 'OC([Pt])C[Pt]'] if SD.SURFACE.get(name) == 'Pt' else
            ['C([Ru])C[Ru]'] if SD.SURFACE.get(name) == 'Ru' else []):
        vals = []
        for x in (smi, Chem.MolFromSmiles(smi), Chem.AddHs(Chem.MolFromSmiles(smi))):
            v = []
            try:
                d = lib.GetDescriptors(x)
                e = lib.Estimate(d, 'thermochem')
                for T in (298.15, 500.0, 800.0):
                    for f in (lambda: e.get_HoRT(T), lambda: e.get_SoR(T),
                              lambda: e.get_SoR(T, S_elements=True),
                              lambda: e.get_GoRT(T, S_elements=True)):
                        try:
                            v.append(round(float(f()), 9))
                        except Exception as ex:    # noqa
                            v.append('EXC:' + type(ex).__name__)
            except Exception as ex:     # noqa
                v = ['EXC:' + type(ex).__name__]
            vals.append(v)
        R.evals += 2
        R.nontrivial += 2
        for how, v in (('object', vals[1]), ('object-with-H', vals[2])):
            if v == vals[0]:
                R.outcomes['estimate:same'] += 1
            else:
                R.outcomes['estimate:differs'] += 1
                i = [k for k, (a, b) in enumerate(zip(v, vals[0])) if a != b]
                R.violation('estimate:%s-input-differs' % how,
                            '[%s] %s: estimate from %s input gives %r where the '
                            'SMILES string gives %r' % (name, smi, how,
                                                        v[i[0]] if i else v, vals[0][i[0]] if i else vals[0]),
                            dict(kind='estimate', scheme=name, smiles=smi))


def small_molecules(name, tier):
    out = []
    for s in SD.molecules_for(name, 'quick' if tier == 'quick' else 'quick'):
        if MD.heavy_count(s) <= 6:
            out.append(s)
    extra = [s for s in MD.M(4, ('C', 'O'), 2)[::1]]
    seen = set(MD.canon(s) for s in out)
    for s in extra:
        if MD.canon(s) not in seen:
            seen.add(MD.canon(s))
            out.append(s)
    return out


W3_CHUNKS = 8
W4_CHUNKS = {'quick': 12, 'thorough': 48}
W4_FORM_CHUNKS = 4
W5_CHUNKS = {'quick': 12, 'thorough': 48}


def shards(tier, seed):
    out = []
    for name in w4_schemes(tier):
        for i in range(W4_CHUNKS[tier]):
            out.append(('w4', name, i, W4_CHUNKS[tier]))
        for i in range(W4_FORM_CHUNKS):
            out.append(('w4forms', name, i, W4_FORM_CHUNKS))
    for name in schemes_for(tier):
        mols = small_molecules(name, tier)
        nch = 40
        for i in range(nch):
            out.append(('perms', name, i, nch))
        for b in (BIG_QUICK if tier == 'quick' else BIG + MD.CURATED_FUSED):
            for j in range(6):
                out.append(('big', name, b, j, 6))
        for fam in W3_FAMILIES:
            for i in range(W3_CHUNKS):
                out.append(('w3', name, fam, i, W3_CHUNKS))
    for name in schemes_for(tier):
        for i in range(W5_CHUNKS[tier]):
            out.append(('w5', name, i, W5_CHUNKS[tier]))
    for name in SD.distinct_schemes():
        for i in range(4):
            out.append(('forms', name, i, 4))
    for name in libs.LIBS:
        out.append(('estimates', name))
    return out


def run_shard(shard, tier):
    R = Result()
    if shard[0] == 'perms':
        _, name, i, n = shard
        mols = small_molecules(name, tier)
        # heavier molecules first within a chunk does not matter; stride split
        for smi in mols[i::n]:
            run_perms(R, name, smi, tier)
    elif shard[0] == 'big':
        run_perms(R, shard[1], shard[2], tier, stride=(shard[3], shard[4]))
    elif shard[0] == 'w3':
        _, name, fam, i, n = shard
        for smi in w3_molecules(fam, tier)[i::n]:
            run_w3(R, name, fam, smi, tier)
    elif shard[0] == 'w4':
        _, name, i, n = shard
        for smi in w4_molecules(tier)[i::n]:
            run_w4(R, name, smi, tier)
    elif shard[0] == 'w4forms':
        _, name, i, n = shard
        run_forms(R, name, w4_molecules(tier)[i::n])
    elif shard[0] == 'w5':
        _, name, i, n = shard
        run_objstates(R, name, w5_molecules(name, tier)[i::n], tier)
    elif shard[0] == 'forms':
        _, name, i, n = shard
        mols = SD.molecules_for(name, 'quick') + BIG + MD.CURATED_FUSED
        run_forms(R, name, mols[i::n])
    else:
        run_estimates(R, shard[1])
    return R


def replay(w):
    R = Result()
    if w['kind'] == 'estimate':
        run_estimates(R, w['scheme'])
    elif w['how'] == 'form':
        run_forms(R, w['scheme'], [w['smiles']], only=w['label'])
    elif w['how'] == 'objstate':
        run_objstates(R, w['scheme'], [w['smiles']], 'thorough', only=w['label'])
    elif w['how'].split('-')[-1] in W3_FAMILIES:
        run_w3(R, w['scheme'], w['how'].split('-')[-1], w['smiles'], 'quick',
               only=w['label'])
    elif w['how'].split('-')[-1] == 'ethene':
        run_w4(R, w['scheme'], w['smiles'], 'quick', only=w['label'])
    elif w['how'] == 'object-allatoms':
        from rdkit import Chem
        S = scheme(w['scheme'])
        M = Mol(w['smiles'])
        check_variant(R, w['scheme'], S, M, desc(S, M.canon), 'object-allatoms',
                      Chem.RenumberAtoms(Chem.AddHs(M.m), w['label']), w['label'])
    else:
        run_perms(R, w['scheme'], w['smiles'], 'thorough', only=w['label'])
    return dict(violates=bool(R.violations),
                detail='\n'.join(v['msg'] for v in R.violations) or 'holds')
