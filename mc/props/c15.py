"""C15 - results do not depend on what the library object did before
(explicit-state search over API histories).

A state is a world of live library objects, decompositions and estimates,
rebuilt for every transition by replaying its event history on fresh objects.
Events: load(L), decompose(i, m), estimate(i, k), merge(i <- j) and the pure
observations eval(e, property), format(i, group), dump(i).  Every observation
is compared with the value the same logical request yields in a FRESH PROCESS
(baselines are computed in separate subprocesses); pure events must leave the
canonical state unchanged; merge must change only its target.

Added after the third wave of seeded changes (domains in
mc/domains/w3_c15.py), each enumerated exhaustively, every observation judged
by the same fresh-process baselines:

* capacity: all sequences of 2 (thorough 3) decompositions on one BensonGA
  object over n-alkanes of 3, 416, 417, 418 and 430 carbons - the raw match
  count of the sp3-carbon pattern (24 per carbon) straddles the matcher's cap
  of 10000 (thorough: also every length-2 sequence over two objects);
* units: all sequences of 2 (thorough 3) loads over five libraries written in
  different unit systems (three `units:` blocks over the same bare numbers,
  units on every number, the shipped BensonGA), the contents of EVERY live
  library compared with a fresh load after every load, and (sixth wave) all
  sequences of <= 2 unit expressions evaluated by the caller (fractional /
  negative / integer powers of K, J, mol, cal) before each of the five loads;
* refused requests: the event estd(i, mapping) - an estimate asked with a
  mapping made by the caller, good or perturbed in one entry (count not a
  number / foreign group, at the first / last position) - on two live
  libraries with uncertainty data: all sequences of <= 1 (thorough 2) earlier
  requests (estd or decompose-and-estimate, on either object) followed by an
  ordinary decompose-estimate-evaluate on either object.

Added after the fourth wave (domains in mc/domains/w4_c15.py), again plain
exhaustive products judged by the same fresh-process baselines; a witness of
these families carries every plan its process had executed:

* prefix: one library per SI prefix of the units database (20: the same bare
  numbers in <prefix>J/mol and <prefix>cal/(mol*K)); all 400 ordered pairs of
  loads, one process per first library (thorough: also all 3-sequences over
  {da, d, a, k, m, M}); after every load the contents of every live library
  are compared with a fresh load - what a unit name resolves to must not
  depend on the names resolved before;
* rewrite: the event rewrite(path, variant) - the caller replaces the files
  behind ONE path - followed by a load of that path: all sequences of 2
  (thorough 3) over 4 variants (unedited; scheme.yaml, library.yaml or the
  included file edited on its own); after every load every live library is
  dumped, decomposes, estimates and evaluates, each judged against a fresh
  process that only ever saw the files the library was loaded from;
* merge programs: two loaded libraries and a receiver made with the
  constructor, all sequences of 2 (thorough 3) events Update(target <- source,
  overwrite) over the 6 ordered pairs of objects x {False, True}: every Update
  must leave every object but its target unchanged, and every loaded library
  that has not been a target must still equal a fresh load and estimate as in
  a fresh process.

The generic digest of process-wide state also covers what module-level
INSTANCES of the package's classes hold (the units database, the schema
repository).

Added after the fifth wave (domains and the environment model in
mc/domains/w5_c15.py), plain exhaustive products again:

* edit programs: the world of the merge programs (two loaded libraries and a
  receiver made with the constructor); all sequences of 1 (thorough 1 and 2)
  Updates over the 12 events Update(target <- source, overwrite) followed by
  ONE in-place edit by the caller of the correlation an object holds for a
  group: 3 objects x the 2 groups of propane x 8 mutation routes of the
  correlation (delete the lowest / an absent / every heat capacity point,
  delete H_ref, delete S_ref, write a point into the public mapping, widen the
  range, merge in the same group of the next object with overwrite).  The edit
  is an operation on ONE library object: every other object must be what it
  was before it, and every loaded library that was neither a target nor
  edited must still equal a fresh load and estimate as in a fresh process.  A
  witness carries every plan its process had executed;
* environment programs: before each load of a shipped library BY NAME the
  caller sets pgradd_DATA_DIR to one of 7 values (removed; empty; the bundled
  directory; a byte-identical relocated copy; a path that does not exist; a
  regular file; an existing directory without libraries): all 2-sequences of
  (value, library) steps (quick: 1 library, 49 sequences; thorough: 2
  libraries, and all 3-sequences over one), EACH SEQUENCE IN A PROCESS OF ITS
  OWN (a fork of a worker that has imported the package and done nothing
  else - the resolved data directory is process-wide state that nothing in
  the API resets).  Until an existing directory has been in force at a load,
  a load must be exactly what a fresh process started with the value now in
  force gives (refused with the same exception type, or the same contents);
  afterwards the outcome class is demanded where a fresh process and the
  documented once-only resolution agree, and a successful load must equal a
  fresh load.  After every load every live library is dumped and the new one
  decomposes, estimates and evaluates, judged by fresh-process baselines run
  under the same value of the variable.
"""
import hashlib
import inspect
import json
import os
import subprocess
import sys
import tempfile
import types

from ..runner import Result
from ..explore import BFS
from .. import REPO, VERIF
from ..domains import w3_c15 as W3
from ..domains import w4_c15 as W4
from ..domains import w5_c15 as W5

HASH_SEED_COMPARE = 'labels'     # the two passes must produce the same outcome labels (state counts may differ)
TWO_HASH_SEEDS = ('thorough',)   # tiers in which the space is walked under a second PYTHONHASHSEED
LEVEL = 'model_checking'
FRESH_WORKERS = True     # one process per shard: process-wide state is part of the state
DEPTH = {'quick': 4, 'thorough': 5}
SEQ_LEN = {'quick': 2, 'thorough': 3}
BOUND = {t: 'universes: 2 synthetic libraries (one with an include and '
            'uncertainty data)%s x molecule pairs; <= 2 library objects, <= 2 '
            'decompositions, <= 2 estimates per world; BFS with state matching '
            'to depth %d; plus all sequences of length <= %d over a 10-event '
            'sub-alphabet without state matching; plus (one process per '
            'shard, no state matching) capacity: all %d-sequences of '
            'decompositions over 5 n-alkanes (3, 416, 417, 418, 430 C: raw '
            'matches below / at / over the cap of 10000) on one BensonGA object%s; '
            'units: all %d-sequences of loads over 5 libraries (3 `units:` '
            'blocks over the same bare numbers, units on every number, shipped '
            'BensonGA), every live library dumped after every load, plus all sequences of <= 2 of 5 '
            'caller-evaluated unit expressions with fractional / negative powers before each load; refused '
            'requests: %s of 2 synthetic uncertainty libraries%s, all '
            'sequences of <= %d earlier requests from {9 caller-made mappings '
            '(1 good, 8 single-entry perturbations), 2 ordinary estimates} x 2 '
            'objects, then an ordinary estimate of each of 2 molecules on '
            'either object with all 6 evaluations'
            % (' and 2 shipped libraries' if t == 'thorough' else
               ' and BensonGA', DEPTH[t], SEQ_LEN[t],
               3 if t == 'thorough' else 2,
               ' and all 2-sequences over two objects' if t == 'thorough' else '',
               3 if t == 'thorough' else 2,
               'the 4 ordered pairs',
               ' and GRWSurface2018 twice (7 mappings, <= 1 earlier request)' if t == 'thorough' else '',
               2 if t == 'thorough' else 1) for t in DEPTH}
for _t in DEPTH:
    BOUND[_t] += ('; prefix: 20 libraries (one per SI prefix of the units database, '
                  'the same bare numbers in <prefix>J/mol and <prefix>cal/(mol*K)), all '
                  '400 ordered pairs of loads, one process per first library%s, every '
                  'live library dumped after every load; rewrite: all %s over 4 '
                  'variants of the files behind one path (unedited / scheme.yaml / '
                  'library.yaml / included file edited) each written to the path and '
                  'loaded from it, every live library dumped and used for a full '
                  'decompose-estimate-evaluate of propane after every load; merge '
                  'programs: %s of {synA, synB, synK} plus a receiver made with the '
                  'constructor, all %s over 12 events Update(target <- source, '
                  'overwrite in {False, True}), after each Update every other object '
                  'compared with its state before and every never-targeted loaded '
                  'library dumped and used for a full estimate of propane'
                  % ((' plus all 3-sequences over the 6 prefixes da, d, a, k, m, M',
                      '2- and 3-sequences', 'the 6 ordered pairs', '2- and 3-sequences')
                     if _t == 'thorough' else
                     ('', '2-sequences', 'the 3 two-element subsets', '2-sequences')))
for _t in DEPTH:
    BOUND[_t] += ('; edit programs: %s of {synA, synB, synK} plus a receiver made with '
                  'the constructor, all sequences of %s over the 12 Update events followed '
                  'by one of 48 in-place edits of a held correlation (3 objects x 2 groups '
                  'x 8 mutation routes), every other object compared before / after the '
                  'edit, every untouched loaded library dumped and used for a full '
                  'estimate of propane; environment programs: 7 values of pgradd_DATA_DIR '
                  '(removed, empty, bundled, relocated copy, missing, regular file, '
                  'directory without libraries) x %s, all 2-sequences of (value, load by '
                  'name) steps%s, one process per sequence, every load judged, every live '
                  'library dumped after every load and each new one used for a full '
                  'estimate of propane'
                  % (('the 6 ordered pairs', '1 or 2 Updates', '{XieGA2022, BensonGA}',
                      ' plus all 3-sequences over XieGA2022')
                     if _t == 'thorough' else
                     ('the 3 two-element subsets', '1 Update', '{XieGA2022}', '')))
RULE = ('explicit-state BFS: from every state every enabled event is executed '
        'on freshly rebuilt real objects; observations are compared with '
        'fresh-process baselines of the same logical request.  A transition is '
        'non-trivial when the observed object has a history of at least two '
        'events before the observation.  The capacity / units / refused-request '
        'families are plain exhaustive products of their event alphabets, each '
        'sequence executed on freshly loaded objects inside one worker process '
        'per shard, every event judged by the same baselines.  The prefix / '
        'rewrite / merge-program families likewise: the plans of a shard run one '
        'after the other in one process, each on a world of its own (rewrite: on '
        'a path of its own), and a witness carries all plans executed so far.  Edit '
        'programs likewise.  Environment programs: each plan runs in a forked copy '
        'of a worker that has only imported the package, so every plan starts '
        'from the process-wide state of a fresh process; its witness is the plan')
ASSUMPTIONS = ['thorough tier: the space is walked under two hash seeds and the two '
               'passes must produce the same SET of outcome labels; the number of '
               'histories merged into one state (and so the evaluation count) was '
               'seen to differ by a few units between passes and between runs, with '
               'every outcome "same", so counts are not compared for this check',
               'canonical state = digest of every live library (contents, '
               'uncertainty block, scheme names/remaps, remembered molecule), the '
               'decompositions and estimates made, plus a generic digest of all '
               'process-wide mutable state of the package (module globals, class '
               'attributes, function defaults): a new place to remember things '
               'shows up as a state difference instead of being merged away',
               'evaluating an estimate whose library was merged into after the '
               'estimate was made is not judged (statement silent)',
               'baselines: one fresh subprocess per (library identity, '
               'molecule) performing load, decompose, estimate, evaluations; for '
               'a caller-made mapping: load, Estimate(mapping), evaluations',
               'an estimate made from a caller-made mapping after the library '
               'decomposed anything is treated like one made from an earlier '
               'decomposition: its elemental reference is the recorded finding K1',
               'a refused request is judged by outcome class (exception type or '
               'ok) and by what it leaves behind (library data, later results), '
               'not by which exception the library ought to raise',
               'nan results are compared by a canonical spelling',
               'a library loaded from a path whose files were replaced is judged '
               'against a fresh process loading a directory that only ever held the '
               'files present at the time of that load (same texts, another path)',
               'merge programs: what the TARGET of an Update(..., overwrite) holds '
               'afterwards is not judged here (C13 owns the merge result; the '
               'depth-bounded search judges plain merged targets): judged are the '
               'outcome-independent facts that no other object changes and that '
               'never-targeted libraries still equal a fresh load',
               'the contents-only baseline of a library may be the dump its '
               '(library, molecule) baseline process made before doing anything else',
               'within one shard of the prefix family the 20 pairs (p, q1..q20) share '
               'a process whose first load is p: the k-th pair runs after the loads '
               'of the k-1 earlier pairs (part of its witness)',
               'edit programs: an in-place edit of a correlation reached through '
               'library[group][\'thermochem\'] is an operation on that library object '
               'only; what the edited object holds afterwards (and whether a refused '
               'edit left it intact) is not judged, only that no OTHER object changed '
               'and that untouched loaded libraries still behave as freshly loaded',
               'edit programs: the edited sites are the correlations of GROUPS; the '
               'uncertainty block (RMSE correlation, matrix) is not an edit site here - '
               'Update hands the source\'s uncertainty block to the target as the same '
               'object, which this family therefore does not observe',
               'environment programs: a process that has imported the package and '
               'called nothing is taken to carry the process-wide state of a fresh '
               'process (plans run in forks of such a process; baselines in spawned '
               'interpreters)',
               'environment programs: the package documents that the data directory '
               'is resolved once per process (the first value naming an existing '
               'directory is kept).  Where that and a fresh process started with the '
               'current value would disagree about success (the variable was changed '
               'after an existing directory had been in force at a load) the outcome '
               'class of the load is not judged; its contents, if it succeeds, are',
               'environment programs: all directories that hold libraries hold the '
               'same bytes (the bundled tree and a copy), so a successful load is '
               'compared with the fresh load under the value now in force if that '
               'names libraries, else under the first value that did']
MANIFEST = dict(
    technique='explicit-state BFS over API histories on the real objects, '
              'fresh-process baselines as oracle, stateless cross-check',
    text='All histories up to the depth bound over loads, decompositions, '
         'estimates, evaluations (with and without the elemental reference), '
         'merges and formatting, on one or two live library objects, are '
         'explored with state matching; every descriptor dictionary, library '
         'dump and evaluated property must equal what a fresh process returns '
         'for the same request, observations must not change any state, and a '
         'merge must change only its target.  Further families without state '
         'matching: molecules at the capacity limit of the matcher decomposed '
         'in every order on one object; libraries in different unit systems '
         'loaded in every order in one process; requests the library refuses '
         '(caller-made mappings with a non-numeric count or a foreign group) '
         'before ordinary estimates, on the same or another library object; '
         'libraries written with each of the 20 SI prefixes loaded in every '
         'ordered pair; the files behind one path replaced between two loads '
         'of that path (scheme, library or included file edited); merge '
         'programs with and without overwrite over two loaded libraries and a '
         'constructor-made receiver, where only the target of a merge may '
         'change; edit programs, where after one or two merges the caller '
         'edits in place a correlation held by one library (each mutation '
         'route of the correlation) and no other library may change or stop '
         'behaving as freshly loaded; environment programs, where the '
         'variable naming the data directory takes each of 7 values (valid, '
         'missing, not a directory, without libraries) before each load by '
         'name, every sequence in a process of its own, and a load must not '
         'depend on loads - failed or not - made under earlier values.',
    note='Recorded finding K1 (stale elemental reference) is reported as a '
         'known finding; every other difference is a violation.',
    ref='5/C15')

# ------------------------------------------------------------ libraries

SCHEME = """patterns:
-   center_name: 'C'
    periph_name: 'C'
    connectivity: 'fragment a{ C labeled c1 }'
-   center_name: 'none'
    periph_name: 'H'
    connectivity: 'fragment a{ H labeled h1 }'
"""
SYN_A = """
groups:
  'C(C)(H)3': {thermochem: {T_ref: 298.15 K, ND_H_ref: -17.5, ND_S_ref: 15.25, ND_Cp_data: [[300 K, 3.0], [800 K, 5.0]], range: [250 K, 1000 K]}}
  'C(C)2(H)2': {thermochem: {T_ref: 298.15 K, ND_H_ref: -8.25, ND_S_ref: 4.75, ND_Cp_data: [[300 K, 2.75], [800 K, 4.0]], range: [250 K, 1000 K]}}
  'C(C)3(H)': {thermochem: {T_ref: 298.15 K, ND_H_ref: -3.5, ND_S_ref: -6.25, range: [250 K, 1000 K]}}
  'C(H)4': {thermochem: {T_ref: 298.15 K, ND_H_ref: -30.25, ND_S_ref: 22.5, ND_Cp_data: [[300 K, 4.25], [800 K, 7.5]], range: [250 K, 1000 K]}}
"""
SYN_B = """
include: [extra.yaml]
groups:
  'C(C)(H)3': {thermochem: {T_ref: 298.15 K, ND_H_ref: -17.5, range: [250 K, 1000 K]}}
  'C(C)2(H)2': {thermochem: {T_ref: 298.15 K, ND_H_ref: -8.25, ND_S_ref: 4.75, ND_Cp_data: [[300 K, 2.75], [800 K, 4.0]], range: [250 K, 1000 K]}}
UQ:
  RMSE: {thermochem: {T_ref: 298.15 K, ND_H_ref: -1.5, ND_S_ref: 0.75, ND_Cp_data: [[300 K, 0.5], [800 K, 0.25]], range: [250 K, 1000 K]}}
  DOF: 7
  InvCovMat:
    groups: ['C(C)(H)3', 'C(C)2(H)2', 'C(C)3(H)']
    mat: [[1.5, 0.25, -0.75], [0.25, 0.5, 0.125], [-0.75, 0.125, 2.0]]
"""
SYN_B_EXTRA = """
groups:
  'C(C)(H)3': {thermochem: {T_ref: 298.15 K, ND_S_ref: 15.25, ND_Cp_data: [[300 K, 3.0], [800 K, 5.0]], range: [250 K, 1000 K]}}
  'C(C)3(H)': {thermochem: {T_ref: 298.15 K, ND_H_ref: -3.5, ND_S_ref: -6.25, ND_Cp_data: [[300 K, 2.25], [800 K, 3.0]], range: [250 K, 1000 K]}}
"""
SYN_MOLS = ['CC', 'CCC', 'CC(C)(C)C']     # neopentane: group C(C)4 has no data -> Estimate fails
SHIPPED_MOLS = {'BensonGA': ['CCCCCC', 'CC(C)C', 'C1CCCCC1'],
                'GRWSurface2018': ['C([Pt])C[Pt]', 'OC([Pt])C[Pt]', 'C(=O)([Pt])O']}
EVALS = [('get_HoRT', 400.0, None), ('get_SoR', 400.0, None),
         ('get_SoR', 400.0, True), ('get_GoRT', 500.0, True),
         ('get_CpoR', 600.0, None), ('get_HoRT_SE', 400.0, None)]

_SYN_DIR = {}


def syn_dir():
    """Synthetic library files, written once (by the parent, see shards())."""
    if 'd' not in _SYN_DIR:
        d = tempfile.mkdtemp(prefix='pgv_c15_')
        _SYN_DIR['own'] = d
        for sub, files in [('synA', {'library.yaml': SYN_A}),
                           ('synB', {'library.yaml': SYN_B, 'extra.yaml': SYN_B_EXTRA}),
                           ('synU', {'library.yaml': W3.SYN_U})] + [
                (n, {'library.yaml': W3.units_library(n)}) for n in sorted(W3.UNIT_SYSTEMS)] + [
                (n, {'library.yaml': W4.prefix_library(n)}) for n in W4.PREFIX_LIBS] + sorted(
                W4.rewrite_variants(SCHEME, SYN_B, SYN_B_EXTRA).items()):
            os.makedirs(os.path.join(d, sub))
            if 'scheme.yaml' not in files:
                with open(os.path.join(d, sub, 'scheme.yaml'), 'w') as f:
                    f.write(SCHEME)
            for n, t in files.items():
                with open(os.path.join(d, sub, n), 'w') as f:
                    f.write(t)
        # fifth wave: what pgradd_DATA_DIR is pointed at (a byte-identical copy of
        # the shipped libraries used, an existing directory without libraries,
        # a regular file; 'missing' is never created)
        import shutil
        env = os.path.join(d, 'envdata')
        os.makedirs(os.path.join(env, 'hollow'))
        for L in W5.ENV_LIBS_ALL:
            shutil.copytree(os.path.join(REPO, 'pgradd', 'data', L),
                            os.path.join(env, 'reloc', L))
        with open(os.path.join(env, 'afile'), 'w') as f:
            f.write('not a directory\n')
        _SYN_DIR['d'] = d
    return _SYN_DIR['d']


def env_value(v):
    """The text pgradd_DATA_DIR is set to for the value name v (None: the
    variable is removed)."""
    env = os.path.join(syn_dir(), 'envdata')
    return {'unset': None, 'empty': '',
            'bundled': os.path.join(REPO, 'pgradd', 'data'),
            'reloc': os.path.join(env, 'reloc'),
            'missing': os.path.join(env, 'no', 'such', 'directory'),
            'file': os.path.join(env, 'afile'),
            'hollow': os.path.join(env, 'hollow')}[v]


def lib_arg(L, base=None):
    if L.startswith('syn'):
        return os.path.join(base or syn_dir(), L, 'library.yaml')
    return L


def scheme_family(L):
    return 'syn' if L.startswith('syn') else L


def mols_for(L):
    return SYN_MOLS if L.startswith('syn') else SHIPPED_MOLS[L]


# ------------------------------------------------------------ digests

def r12(v):
    try:
        return float('%.12g' % float(v))
    except Exception:     # noqa
        return repr(v)[:60]


def corr_digest(k):
    rng = k.get_range()
    return (type(k).__name__, r12(k.ND_H_ref) if k.ND_H_ref is not None else None,
            r12(k.ND_S_ref) if k.ND_S_ref is not None else None,
            # del_ND_Cp() leaves None behind: spelled as itself, not as 'no points'
            None if k.ND_Cp_data is None else
            tuple(sorted((r12(T), r12(v)) for T, v in k.ND_Cp_data.items())),
            None if rng is None else (r12(rng[0]), r12(rng[1])), r12(k.T_ref))


def lib_digest(lib):
    items = []
    for g in sorted(lib.contents, key=str):
        ps = lib.contents[g]
        items.append((str(g), tuple(sorted(
            (n, corr_digest(ps[n]) if hasattr(ps[n], 'ND_Cp_data') else repr(ps[n])[:40])
            for n in ps))))
    uq = lib.uq_contents
    uqd = None
    if uq:
        uqd = (tuple(map(str, uq['descriptors'])),
               tuple(tuple(r12(x) for x in row) for row in uq['mat'].tolist()),
               uq['dof'], corr_digest(uq['RMSE'].thermochem))
    sch = lib.scheme
    schd = (tuple((p['center_name'], p['periph_name']) for p in sch.patterns),
            tuple(d['name'] for d in sch.other_descriptors),
            tuple(sorted((str(k), repr(v)) for k, v in sch.remaps.items())))
    extra = tuple(sorted(k for k in vars(lib) if k not in
                         ('scheme', 'path', 'contents', 'uq_contents', 'name')))
    return (tuple(items), uqd, schd, name_digest(getattr(lib, 'name', '<unset>')), extra)


def name_digest(name):
    """The molecule a library remembers, spelled without memory addresses
    (repr of a Mol object contains one, which made the merging of states -
    and the evaluation count - vary from run to run): a molecule object is
    spelled by its atoms, hydrogen counts, radicals, charges and bonds in
    atom order, so two objects merge only if they are the same graph with the
    same numbering."""
    if hasattr(name, 'GetAtoms'):
        atoms = tuple((a.GetSymbol(), a.GetTotalNumHs(), a.GetNumRadicalElectrons(),
                       a.GetFormalCharge(), a.GetIsotope()) for a in name.GetAtoms())
        bonds = tuple(sorted((b.GetBeginAtomIdx(), b.GetEndAtomIdx(), str(b.GetBondType()))
                             for b in name.GetBonds()))
        return ('Mol', atoms, bonds)
    return repr(name)


def _sum(v, depth=0):
    """Structural summary of a mutable container (bounded)."""
    if isinstance(v, dict):
        return ('dict', len(v), tuple(sorted(repr(k)[:60] for k in v))[:300])
    if isinstance(v, (list, set, frozenset, tuple)):
        return (type(v).__name__, len(v), tuple(sorted(repr(x)[:60] for x in v))[:300])
    return repr(v)[:80]


def global_digest():
    """Every dict/list/set reachable from module globals and class attributes
    of pgradd.*, every simple module global, and the defaults of every
    function and method."""
    items = []
    for name, mod in sorted(sys.modules.items()):
        if not (name == 'pgradd' or name.startswith('pgradd.')) or mod is None:
            continue
        for k, v in sorted(vars(mod).items()):
            if k.startswith('__'):
                continue
            if isinstance(v, (dict, list, set)):
                items.append((name, k, _sum(v)))
            elif isinstance(v, (bool, int, float, str, type(None))):
                items.append((name, k, repr(v)[:80]))
            elif inspect.isclass(v) and getattr(v, '__module__', None) == name:
                for ck, cv in sorted(vars(v).items(), key=lambda kv: kv[0]):
                    if ck.startswith('__') and ck not in ('__defaults__',):
                        continue
                    if isinstance(cv, (dict, list, set)):
                        items.append((name, k, ck, _sum(cv)))
                    f = cv.__func__ if isinstance(cv, (classmethod, staticmethod)) else cv
                    if isinstance(f, types.FunctionType) and (f.__defaults__ or f.__kwdefaults__):
                        items.append((name, k, ck, 'defaults',
                                      tuple(_sum(x) for x in (f.__defaults__ or ())),
                                      _sum(f.__kwdefaults__) if f.__kwdefaults__ else None))
            elif isinstance(v, types.FunctionType) and v.__module__ == name and (
                    v.__defaults__ or v.__kwdefaults__):
                items.append((name, k, 'defaults',
                              tuple(_sum(x) for x in (v.__defaults__ or ()))))
            elif (getattr(type(v), '__module__', None) or '').startswith('pgradd') and \
                    isinstance(getattr(v, '__dict__', None), dict):
                # a module-level INSTANCE of one of the package's classes (the
                # units database, the schema repository, constants): what it
                # holds is process-wide state too
                for ak, av in sorted(vars(v).items()):
                    if isinstance(av, (dict, list, set)):
                        items.append((name, k, 'attr', ak, _sum(av)))
                    elif isinstance(av, (bool, int, float, str, type(None))):
                        items.append((name, k, 'attr', ak, repr(av)[:80]))
    return hashlib.sha1(repr(items).encode()).hexdigest()


# ------------------------------------------------------------ world

def obj_fingerprint(m):
    from rdkit import Chem
    return (Chem.MolToSmiles(m), tuple(str(b.GetBondType()) for b in m.GetBonds()),
            tuple(a.GetIsAromatic() for a in m.GetAtoms()),
            tuple(tuple(sorted(a.GetPropsAsDict(includePrivate=False, includeComputed=False)))
                  for a in m.GetAtoms()))


_WORLD_SERIAL = [0]


class World(object):
    def __init__(self):
        _WORLD_SERIAL[0] += 1
        self.serial = _WORLD_SERIAL[0]
        self.slots = {}      # slot name -> variant whose files are in it now
        self.objs = {}       # molecule objects owned by the "caller"
        self.obj_fp = {}
        self.libs = []       # dict(obj, ident(tuple), family, last(molecule), dirty_after=set())
        self.decs = []       # dict(lib, m, family, desc)
        self.ests = []       # dict(obj, lib, dec, stale(bool), ident, merged_after(bool))

    def slot_dir(self, slot):
        """A directory whose files the caller rewrites between loads: one path
        per (process, world, slot), below the directory of the synthetic
        libraries (removed with it)."""
        return os.path.join(syn_dir(), 'slots', '%d_%d' % (os.getpid(), self.serial), slot)

    def digest(self):
        return (tuple((l['ident'], lib_digest(l['obj'])) for l in self.libs),
                tuple((d['lib'], d['m'], bool(d.get('obj'))) for d in self.decs),
                tuple(sorted((m, obj_fingerprint(o) == self.obj_fp[m])
                             for m, o in self.objs.items())),
                # the harness-side facts the oracle uses (which molecule the
                # estimate is FOR, whether it was created stale, whether its
                # library was merged into afterwards) are part of the state:
                # two histories may only be merged if the oracle treats their
                # futures alike
                tuple((e['lib'], e['dec'], e['m'], e['stale'], e['merged_after'],
                       e['ident'], repr(getattr(e['obj'], 'name', None)),
                       len(getattr(e['obj'], 'correlations', ())))
                      for e in self.ests),
                global_digest())


def observe_value(f, *a, **k):
    import warnings
    with warnings.catch_warnings():
        warnings.simplefilter('ignore')
        try:
            v = f(*a, **k)
            try:
                v12 = r12(v)
                # nan survives the JSON round trip as a float unequal to
                # itself: give it a canonical spelling
                return ['ok', 'nan' if v12 != v12 else v12]
            except Exception:     # noqa
                return ['ok', repr(v)[:80]]
        except Exception as e:     # noqa
            return ['exc', type(e).__name__]


def apply(world, ev):
    """Execute one event on the real objects; returns a JSON-normal
    observation."""
    return json.loads(json.dumps(_apply(world, ev)))


def _apply(world, ev):
    import pgradd.ThermoChem   # noqa
    from pgradd.GroupAdd.Library import GroupLibrary
    kind = ev[0]
    if kind == 'load':
        lib = GroupLibrary.Load(lib_arg(ev[1]))
        world.libs.append(dict(obj=lib, ident=(ev[1],), family=scheme_family(ev[1]),
                               last=None))
        return ['loaded']
    if kind == 'evalqty':
        # (sixth wave, C15-m16) the caller evaluates a unit expression of its
        # own; the process-wide units table must not be touched by it
        from pgradd.Units import eval_qty
        try:
            eval_qty(ev[1])
            return ['evaluated']
        except Exception as e:      # noqa
            return ['EXC', type(e).__name__]
    if kind == 'rewrite':
        # the caller replaces the files behind a path by those of a variant
        import shutil
        d = world.slot_dir(ev[1])
        os.makedirs(d, exist_ok=True)
        for n in os.listdir(d):
            os.remove(os.path.join(d, n))
        src = os.path.dirname(lib_arg(ev[2]))
        for n in sorted(os.listdir(src)):
            shutil.copyfile(os.path.join(src, n), os.path.join(d, n))
        world.slots[ev[1]] = ev[2]
        return ['written']
    if kind == 'loadslot':
        lib = GroupLibrary.Load(os.path.join(world.slot_dir(ev[1]), 'library.yaml'))
        V = world.slots[ev[1]]
        world.libs.append(dict(obj=lib, ident=(V,), family=scheme_family(V), last=None))
        return ['loaded']
    if kind == 'envload':
        # the caller sets (or removes) pgradd_DATA_DIR, then loads a shipped
        # library by name
        val = env_value(ev[1])
        if val is None:
            os.environ.pop(W5.ENVVAR, None)
        else:
            os.environ[W5.ENVVAR] = val
        try:
            lib = GroupLibrary.Load(ev[2])
        except Exception as ex:      # noqa
            return ['exc', type(ex).__name__]
        world.libs.append(dict(obj=lib, ident=('%s@%s' % (ev[2], ev[1]),), family=ev[2],
                               last=None))
        return ['ok']
    if kind == 'edit':
        # the caller edits, in place, the correlation library ev[1] holds for
        # group ev[2], through the mutation route ev[3]
        try:
            c = world.libs[ev[1]]['obj'][ev[2]]['thermochem']
            op = ev[3]
            if op == 'del_cp_first':
                c.del_ND_Cp(min(c.ND_Cp_data))
            elif op == 'del_cp_absent':
                c.del_ND_Cp(W5.T_ABSENT)
            elif op == 'del_cp_all':
                c.del_ND_Cp()
            elif op == 'del_h':
                c.del_ND_H_ref()
            elif op == 'del_s':
                c.del_ND_S_ref()
            elif op == 'put_cp':
                c.ND_Cp_data[W5.T_NEW] = W5.CP_NEW
            elif op == 'widen':
                c.set_range(W5.RANGE_WIDE)
            elif op == 'merge_in':
                other = world.libs[(ev[1] + 1) % len(world.libs)]['obj']
                c.update(other[ev[2]]['thermochem'], overwrite=True)
            else:
                raise ValueError(ev)
            return ['ok']
        except ValueError:
            if ev[3] not in W5.EDIT_OPS:
                raise
            return ['exc', 'ValueError']
        except Exception as ex:      # noqa
            return ['exc', type(ex).__name__]
    if kind == 'new':
        # a receiver made with the constructor, from the scheme of library ev[1]
        L = world.libs[ev[1]]
        world.libs.append(dict(obj=GroupLibrary(L['obj'].scheme),
                               ident=('new:%s' % L['ident'][0],), family=L['family'],
                               last=None))
        return ['made']
    if kind == 'upd':
        # Update(target <- source, overwrite)
        tgt, src = world.libs[ev[1]], world.libs[ev[2]]
        try:
            tgt['obj'].Update(src['obj'], overwrite=bool(ev[3]))
            obs = ['ok']
        except Exception as ex:      # noqa
            obs = ['exc', type(ex).__name__]
        tgt['ident'] = tgt['ident'] + ('!' if ev[3] else '+',) + src['ident']
        for e in world.ests:
            if e['lib'] == ev[1]:
                e['merged_after'] = True
        return obs
    if kind == 'dec':
        L = world.libs[ev[1]]
        try:
            d = L['obj'].GetDescriptors(ev[2])
            obs = ['ok', sorted((str(k), r12(v)) for k, v in d.items())]
        except Exception as e:      # noqa
            d, obs = None, ['exc', type(e).__name__]
        L['last'] = ev[2]
        world.decs.append(dict(lib=ev[1], m=ev[2], family=L['family'], desc=d))
        return obs
    if kind == 'deco':
        # the SAME hydrogen-explicit molecule object every time it is used
        from rdkit import Chem
        L = world.libs[ev[1]]
        if ev[2] not in world.objs:
            world.objs[ev[2]] = Chem.AddHs(Chem.MolFromSmiles(ev[2]))
            world.obj_fp[ev[2]] = obj_fingerprint(world.objs[ev[2]])
        obj = world.objs[ev[2]]
        try:
            d = L['obj'].GetDescriptors(obj)
            obs = ['ok', sorted((str(k), r12(v)) for k, v in d.items())]
        except Exception as e:      # noqa
            d, obs = None, ['exc', type(e).__name__]
        L['last'] = '<object %s>' % ev[2]
        world.decs.append(dict(lib=ev[1], m=ev[2], family=L['family'], desc=d, obj=True))
        obs.append('object-unchanged' if obj_fingerprint(obj) == world.obj_fp[ev[2]]
                   else 'OBJECT-MODIFIED')
        return obs
    if kind == 'est':
        L = world.libs[ev[1]]
        D = world.decs[ev[2]]
        try:
            e = L['obj'].Estimate(D['desc'], 'thermochem')
            obs = ['ok']
        except Exception as ex:      # noqa
            e, obs = None, ['exc', type(ex).__name__]
        world.ests.append(dict(obj=e, lib=ev[1], dec=ev[2], ident=L['ident'],
                               stale=(L['last'] != (('<object %s>' % D['m']) if D.get('obj')
                                                    else D['m'])),
                               merged_after=False, m=D['m']))
        return obs
    if kind == 'estd':
        # an estimate asked with a mapping made by the caller (ordered list of
        # [group, count]); the mapping may be one the library has to refuse
        L = world.libs[ev[1]]
        mapping = dict((g, c) for g, c in ev[2])
        try:
            e = L['obj'].Estimate(mapping, 'thermochem')
            obs = ['ok']
        except Exception as ex:      # noqa
            e, obs = None, ['exc', type(ex).__name__]
        obs.append('mapping-unchanged' if list(map(list, mapping.items())) ==
                   [list(p) for p in ev[2]] else 'MAPPING-MODIFIED')
        # a fresh process has decomposed nothing when it makes this estimate:
        # after any decomposition the remembered molecule differs (finding K1)
        world.ests.append(dict(obj=e, lib=ev[1], dec=None, ident=L['ident'],
                               stale=(L['last'] is not None), merged_after=False,
                               m=map_key(ev[2])))
        return obs
    if kind == 'merge':
        tgt, src = world.libs[ev[1]], world.libs[ev[2]]
        try:
            tgt['obj'].Update(src['obj'])
            obs = ['ok']
        except Exception as ex:      # noqa
            obs = ['exc', type(ex).__name__]
        tgt['ident'] = tgt['ident'] + src['ident']
        for e in world.ests:
            if e['lib'] == ev[1]:
                e['merged_after'] = True
        return obs
    if kind == 'eval':
        E = world.ests[ev[1]]
        prop, T, se = EVALS[ev[2]]
        if E['obj'] is None:
            return ['no-estimate']
        f = getattr(E['obj'], prop, None)
        if f is None:
            return ['exc', 'AttributeError']
        if se is None:
            return observe_value(f, T)
        return observe_value(f, T, S_elements=se)
    if kind == 'fmt':
        L = world.libs[ev[1]]
        try:
            return ['ok', L['obj'][ev[2]]['thermochem'].yaml_format()]
        except Exception as ex:     # noqa
            return ['exc', type(ex).__name__]
    if kind == 'dump':
        return ['ok', hashlib.sha1(repr(lib_digest(world.libs[ev[1]]['obj'])[:3]).encode()).hexdigest()]
    raise ValueError(ev)


PURE = ('eval', 'fmt', 'dump')


def map_key(pairs):
    """A caller-made mapping as the 'molecule' of a baseline request."""
    return 'map:' + json.dumps([list(p) for p in pairs])

MAXLIBS, MAXDECS, MAXESTS = 2, 2, 2


def enabled(world, universe):
    libs_alpha, mols = universe[:2]
    maxlibs = universe[2] if len(universe) > 2 else MAXLIBS
    evs = []
    if len(world.libs) < maxlibs:
        for L in libs_alpha:
            evs.append(('load', L))
    for i, L in enumerate(world.libs):
        if len(world.decs) < MAXDECS:
            for m in mols.get(L['family'], []):
                evs.append(('dec', i, m))
            for m in mols.get(L['family'], [])[:1]:
                evs.append(('deco', i, m))
        if len(world.ests) < MAXESTS:
            for k, D in enumerate(world.decs):
                if D['family'] == L['family'] and D['desc'] is not None:
                    evs.append(('est', i, k))
        for j, L2 in enumerate(world.libs):
            if i != j and L2['family'] == L['family'] and len(L['ident']) < 2:
                evs.append(('merge', i, j))
        evs.append(('dump', i))
        g = 'C(C)(H)3' if L['family'] == 'syn' else None
        if g:
            evs.append(('fmt', i, g))
    for e in range(len(world.ests)):
        for p in range(len(EVALS)):
            evs.append(('eval', e, p))
    return evs


def rebuild(hist):
    w = World()
    for ev in hist:
        apply(w, ev)
    return w


# ------------------------------------------------------------ baselines

BASE_CHILD = r'''
import sys, os, json
sys.path.insert(0, %(verif)r)
os.environ['PGRADD_VERIF_REPO'] = %(repo)r
from mc.runner import silence
real = os.fdopen(os.dup(1), 'w')
silence()
from mc.props import c15
c15._SYN_DIR['d'] = %(syn)r
req = json.loads(%(req)r)
w = c15.World()
out = {}
for L in req['ident'][:1]:
    if '@' in L:
        # a shipped library loaded by name under a value of pgradd_DATA_DIR
        out['load'] = c15.apply(w, ('envload', L.split('@')[1], L.split('@')[0]))
        if out['load'][0] != 'ok':
            real.write(json.dumps(out)); real.flush(); os._exit(0)
    else:
        c15.apply(w, ('load', L))
for L in req['ident'][1:]:
    c15.apply(w, ('load', L))
    out['merge'] = c15.apply(w, ('merge', 0, len(w.libs) - 1))
out['dump'] = c15.apply(w, ('dump', 0))
if req.get('fmt'):
    out['fmt'] = c15.apply(w, ('fmt', 0, req['fmt']))
if req.get('m'):
    if req['m'].startswith('map:'):
        out['est'] = c15.apply(w, ('estd', 0, json.loads(req['m'][4:])))
        made = w.ests[0]['obj'] is not None
    else:
        out['dec'] = c15.apply(w, ('dec', 0, req['m']))
        made = w.decs[0]['desc'] is not None
        if made:
            out['est'] = c15.apply(w, ('est', 0, 0))
    if made:
        order = list(range(len(c15.EVALS)))
        if req.get('reverse'):
            order.reverse()
        out['eval'] = {}
        for p in order:
            out['eval'][str(p)] = c15.apply(w, ('eval', 0, p))
real.write(json.dumps(out)); real.flush(); os._exit(0)
'''
_BASE = {}


def baseline(ident, m=None, fmt=None):
    key = (tuple(ident), m, fmt)
    if key in _BASE:
        return _BASE[key]
    req = dict(ident=list(ident), m=m, fmt=fmt)
    outs = []
    for rev in (False, True):
        req['reverse'] = rev
        code = BASE_CHILD % dict(verif=VERIF, repo=REPO, syn=syn_dir(), req=json.dumps(req))
        p = subprocess.run([sys.executable, '-c', code], stdout=subprocess.PIPE,
                           stderr=subprocess.PIPE, timeout=900,
                           env=dict(os.environ, PYTHONHASHSEED='0'))
        try:
            outs.append(json.loads(p.stdout.decode()))
        except Exception:      # noqa
            raise RuntimeError('baseline child failed: ' + p.stderr.decode(errors='replace')[-500:])
        if m is None or 'eval' not in outs[0]:
            break       # nothing was evaluated: the second order is the same run
    if len(outs) == 2 and outs[0] != outs[1]:
        outs[0]['order_dependent_baseline'] = True
    _BASE[key] = outs[0]
    return outs[0]


# ------------------------------------------------------------ checking

def check_observation(R, world, ev, obs, hist, universe_tag):
    """Compare an observation with the fresh-process baseline."""
    kind = ev[0]
    wit = dict(kind='hist', history=[list(e) for e in hist], event=list(ev),
               universe=universe_tag)
    deep = len(hist) >= 2
    if kind == 'dec':
        L = world.libs[ev[1]]
        base = baseline(L['ident'][:1], ev[2])['dec']
        # descriptors depend on the scheme only: the first identity component
        if obs != base:
            R.violation('descriptors-differ', 'after %s, decomposing %s gave %r; a '
                        'fresh process gives %r' % (hist, ev[2], obs, base), wit)
            return 'differs'
        return 'same'
    if kind == 'deco':
        L = world.libs[ev[1]]
        base = baseline(L['ident'][:1], ev[2])['dec'] + ['object-unchanged']
        if obs != base:
            R.violation('object-decomposition-differs' if obs[-1] == 'object-unchanged'
                        else 'callers-object-modified',
                        'after %s, decomposing the (same) molecule object for %s gave %r; '
                        'a fresh process gives %r for its SMILES' % (hist, ev[2], obs, base), wit)
            return 'differs'
        return 'same'
    if kind == 'dump':
        L = world.libs[ev[1]]
        base = baseline(L['ident'])['dump']
        if obs != base:
            R.violation('library-contents-differ', 'after %s the contents of library '
                        '%d (%s) differ from a fresh load' % (hist, ev[1], L['ident']), wit)
            return 'differs'
        return 'same'
    if kind == 'fmt':
        L = world.libs[ev[1]]
        base = baseline(L['ident'], fmt=ev[2])['fmt']
        if obs != base:
            R.violation('format-differs', 'after %s formatting %s gives %r, fresh: %r'
                        % (hist, ev[2], obs, base), wit)
            return 'differs'
        return 'same'
    if kind == 'merge':
        tgt = world.libs[ev[1]]
        base = baseline(tgt['ident']).get('merge')
        if base is not None and obs != base:
            R.violation('merge-outcome-differs', 'after %s, merge %r gave %r; fresh: %r'
                        % (hist, ev, obs, base), wit)
            return 'differs'
        return 'same'
    if kind == 'est':
        E = world.ests[-1]
        base = baseline(E['ident'], E['m']).get('est')
        if base is not None and obs != base:
            R.violation('estimate-creation-differs', 'after %s, Estimate gave %r; '
                        'fresh: %r' % (hist, obs, base), wit)
            return 'differs'
        return 'same'
    if kind == 'estd':
        E = world.ests[-1]
        base = baseline(E['ident'], E['m']).get('est')
        if obs != base:
            R.violation('mapping-estimate-differs' if obs[-1] == 'mapping-unchanged'
                        else 'callers-mapping-modified',
                        'after %s, Estimate(%r) on library %d gave %r; a fresh process '
                        'gives %r' % (hist, ev[2], ev[1], obs, base), wit)
            return 'differs'
        return 'same:%s' % obs[0]
    if kind == 'eval':
        E = world.ests[ev[1]]
        if E['obj'] is None:
            return 'no-estimate'
        if E['merged_after']:
            return 'unjudged(merged after the estimate was made)'
        b = baseline(E['ident'], E['m'])
        if b.get('order_dependent_baseline'):
            R.violation('evaluation-order-dependent', 'fresh-process evaluations of '
                        '%s/%s depend on their order' % (E['ident'], E['m']), wit)
        base = (b.get('eval') or {}).get(str(ev[2]))
        if base is None:
            return 'no-baseline'
        if obs != base:
            prop, T, se = EVALS[ev[2]]
            if se and E['stale']:
                key = 'K1:stale-elemental-reference'
            else:
                key = 'evaluation-differs:%s%s' % (prop, ':S_elements' if se else '')
            R.violation(key, 'after %s, %s(%g%s) of the estimate for %s gave %r; a '
                        'fresh process gives %r' % (hist, prop, T,
                                                    ', S_elements=True' if se else '',
                                                    E['m'], obs, base), wit)
            return 'differs'
        return 'same'
    return 'unchecked'


def step(R, hist, ev, universe, tag):
    """State-changing transition: rebuild, execute, check, return canon."""
    w = rebuild(hist)
    others_before = [lib_digest(l['obj']) for l in w.libs]
    obs = apply(w, ev)
    R.evals += 1
    if len(hist) >= 2:
        R.nontrivial += 1
    res = check_observation(R, w, ev, obs, hist, tag)
    R.outcomes['%s:%s' % (ev[0], res)] += 1
    if ev[0] == 'merge':
        for i, l in enumerate(w.libs):
            if i != ev[1] and i < len(others_before) and lib_digest(l['obj']) != others_before[i]:
                R.violation('merge-changed-another-library', 'after %s, merge %r '
                            'changed library %d' % (hist, ev, i),
                            dict(kind='hist', history=[list(e) for e in hist],
                                 event=list(ev), universe=tag))
    if ev[0] in ('dec', 'deco', 'est'):
        for i, l in enumerate(w.libs):
            a, b = lib_digest(l['obj']), others_before[i]
            # the remembered molecule (4th component) may change on the
            # library that decomposed; data must not
            if a[:3] != b[:3] or a[4] != b[4]:
                R.violation('%s-changed-library-data' % ev[0], 'after %s, %r changed '
                            'the data of library %d' % (hist, ev, i),
                            dict(kind='hist', history=[list(e) for e in hist],
                                 event=list(ev), universe=tag))
    return w.digest()


def pure_batch(R, hist, universe, tag):
    """All pure events of a state on ONE rebuilt world; each must leave the
    canonical state unchanged (else the world is rebuilt)."""
    w = rebuild(hist)
    before = w.digest()
    n = 0
    for ev in enabled(w, universe):
        if ev[0] not in PURE:
            continue
        obs = apply(w, ev)
        n += 1
        R.evals += 1
        if len(hist) >= 2:
            R.nontrivial += 1
        res = check_observation(R, w, ev, obs, hist, tag)
        R.outcomes['%s:%s' % (ev[0], res)] += 1
        after = w.digest()
        if after != before:
            what = [i for i, (a, b) in enumerate(zip(after, before)) if a != b]
            R.violation('observation-changed-state:%s' % ev[0],
                        'after %s, the observation %r changed the state (component '
                        '%s of libraries/decompositions/estimates/process globals)'
                        % (hist, ev, what),
                        dict(kind='hist', history=[list(e) for e in hist],
                             event=list(ev), universe=tag))
            w = rebuild(hist)
            before = w.digest()
    return n


def universes(tier):
    out = []
    pairs = [(0, 1), (0, 2), (1, 2)]
    for libs_alpha in (('synA',), ('synB',), ('synA', 'synB')):
        for a, b in pairs:
            out.append(('%s|%d%d' % ('+'.join(libs_alpha), a, b), libs_alpha,
                        {'syn': [SYN_MOLS[a], SYN_MOLS[b]]}, 2))
    shipped = ['BensonGA'] + (['GRWSurface2018'] if tier == 'thorough' else [])
    for L in shipped:
        for a, b in pairs[:(3 if tier == 'thorough' else 1)]:
            ms = SHIPPED_MOLS[L]
            out.append(('%s|%d%d' % (L, a, b), (L,), {L: [ms[a], ms[b]]},
                        2 if tier == 'thorough' else 1))
    return out


def run_universe(R, tag, libs_alpha, mols, maxlibs, tier):
    universe = (libs_alpha, mols, maxlibs)
    b = BFS(max_depth=DEPTH[tier])
    pure_done = set()

    def visit(h):
        n = pure_batch(R, h, universe, tag)
        R.transitions += n
        R.traces += 1

    def events(h):
        w = rebuild(h)
        return [e for e in enabled(w, universe) if e[0] not in PURE]

    init = [((), rebuild(()).digest())]
    b.run(init, events, lambda h, ev: step(R, h, ev, universe, tag), visit=visit)
    R.states += len(b.seen)
    R.transitions += b.transitions
    R.traces += b.traces
    R.extra['confluent_arrivals'] += b.confluent_merges
    R.extra['max_depth_reached'] = b.depth_reached
    deepest = max(b.seen.values(), key=len)
    R.sample(dict(universe=tag, states=len(b.seen), a_deepest_history=[list(e) for e in deepest]),
             limit=1)


SUB10 = [('load', 'synA'), ('load', 'synB'), ('dec', 0, 'CC'), ('dec', 0, 'CCC'),
         ('dec', 1, 'CC'), ('est', 0, 0), ('est', 0, 1), ('merge', 0, 1),
         ('eval', 0, 2), ('eval', 1, 2)]


def well_formed(w, ev):
    k = ev[0]
    if k == 'load':
        return len(w.libs) < 3
    if k == 'dec':
        return ev[1] < len(w.libs)
    if k == 'est':
        return ev[1] < len(w.libs) and ev[2] < len(w.decs) and w.decs[ev[2]]['desc'] is not None
    if k == 'merge':
        return ev[1] < len(w.libs) and ev[2] < len(w.libs) and len(w.libs[ev[1]]['ident']) < 2
    if k == 'eval':
        return ev[1] < len(w.ests)
    return False


def run_stateless(R, first, tier):
    """All well-formed sequences starting with `first`, without state
    matching: a cross-check of the canonicalisation."""
    import itertools
    n = SEQ_LEN[tier] + 1
    for L in range(0, n):
        for rest in itertools.product(SUB10, repeat=L):
            seq = (first,) + rest
            w = World()
            ok = True
            for i, ev in enumerate(seq):
                if not well_formed(w, ev):
                    ok = False
                    break
                obs = apply(w, ev)
                R.evals += 1
                if i >= 2:
                    R.nontrivial += 1
                res = check_observation(R, w, ev, obs, seq[:i], 'stateless')
                R.outcomes['stateless:%s:%s' % (ev[0], res)] += 1
            if ok:
                R.traces += 1
                R.extra['stateless_histories'] += 1


def requests(tier):
    reqs = []
    syn_idents = [('synA',), ('synB',), ('synA', 'synA'), ('synA', 'synB'),
                  ('synB', 'synA'), ('synB', 'synB')]
    for ident in syn_idents:
        reqs.append((ident, None, None))
        reqs.append((ident, None, 'C(C)(H)3'))
        for m in SYN_MOLS:
            reqs.append((ident, m, None))
    for L in ['BensonGA'] + (['GRWSurface2018'] if tier == 'thorough' else []):
        for ident in ((L,), (L, L)):
            reqs.append((ident, None, None))
            for m in SHIPPED_MOLS[L]:
                reqs.append((ident, m, None))
    for ident in (('synA',), ('BensonGA',), ('BensonGA', 'BensonGA'), ('synA', 'synA')):
        for m in ('CC(C)C(C)C', 'CC'):
            reqs.append((ident, m, None))
    # third-wave families
    for m in W3.BIG_MOLS:
        reqs.append(((W3.BIG_LIB,), m, None))
    for L in W3.UNITS_ALPHABET:
        reqs.append(((L,), None, None))
        if L.startswith('syn'):
            reqs.append(((L,), None, 'C(C)(H)3'))
    for fam, libs in refused_worlds(tier):
        for L in sorted(set(libs)):
            reqs.append(((L,), None, None))
            for m in W3.REFUSED[fam]['finals']:
                reqs.append(((L,), m, None))
            for pairs in W3.refused_mappings(fam):
                reqs.append(((L,), map_key(pairs), None))
    # fourth-wave families
    for L in W4.PREFIX_LIBS:
        reqs.append(((L,), None, None))
    for V in W4.REWRITE_VARIANTS:
        for m in W4.REWRITE_MOLS:
            reqs.append(((V,), m, None))
    for L in W4.MERGE_LIBS:
        reqs.append(((L,), None, None))
        reqs.append(((L,), W4.MERGE_MOL, None))
    # fifth-wave families (the edit programs use the merge programs' requests)
    for v, L in W5.env_steps(tier):
        reqs.append((('%s@%s' % (L, v),), W5.ENV_MOL, None))
    seen, out = set(), []
    for r in reqs:
        if r not in seen:
            seen.add(r)
            out.append(r)
    return out


def precompute(tier):
    """All fresh-process baselines, computed in parallel by the parent."""
    from concurrent.futures import ThreadPoolExecutor
    reqs = requests(tier)
    with ThreadPoolExecutor(max_workers=min(16, os.cpu_count() or 1)) as ex:
        res = list(ex.map(lambda r: baseline(*r), reqs))
    return [[list(r[0]), r[1], r[2], v] for r, v in zip(reqs, res)]


MIXED = ['CC(C)C(C)C', 'CC']


def run_cross(R, L1, L2, tier):
    """Two libraries with DIFFERENT schemes in one process, the same SMILES
    given to both: all sequences of <= 2 (thorough 3) decompositions."""
    import itertools
    evs = [('dec', i, m) for i in (0, 1) for m in MIXED]
    for n in range(1, (3 if tier == 'thorough' else 2) + 1):
        for seq in itertools.product(evs, repeat=n):
            hist = (('load', L1), ('load', L2))
            w = rebuild(hist)
            for ev in seq:
                obs = apply(w, ev)
                R.evals += 1
                R.nontrivial += 1
                res = check_observation(R, w, ev, obs, hist, 'cross')
                R.outcomes['cross:%s:%s' % (ev[0], res)] += 1
                hist = hist + (ev,)
            R.traces += 1
            R.transitions += len(seq)
    R.sample(dict(cross=[L1, L2], molecules=MIXED), limit=1)


def run_blank(R):
    """Libraries made with the constructor directly: what one of them absorbs
    by Update() must not appear in the next one (shared default arguments)."""
    import pgradd.ThermoChem   # noqa
    from pgradd.GroupAdd.Library import GroupLibrary
    for L in ('synB', 'synA'):
        w = World()
        apply(w, ('load', L))
        src = w.libs[0]['obj']
        g0 = global_digest()
        first = GroupLibrary(src.scheme)
        blank0 = lib_digest(first)
        first.Update(src)
        second = GroupLibrary(src.scheme)
        R.evals += 2
        R.nontrivial += 2
        R.traces += 1
        R.transitions += 3
        wit = dict(kind='blank', lib=L)
        if lib_digest(second) != blank0:
            R.outcomes['blank:contaminated'] += 1
            R.violation('new-library-not-empty', 'after GroupLibrary(scheme).Update(%s), '
                        'a NEW GroupLibrary(scheme) is not empty: %d groups, uncertainty '
                        'keys %r' % (L, len(second), sorted(second.uq_contents)), wit)
        elif global_digest() != g0:
            R.outcomes['blank:process-state-changed'] += 1
            R.violation('update-changed-process-state', 'GroupLibrary(scheme).Update(%s) '
                        'changed process-wide state of the package (module globals, class '
                        'attributes or default arguments)' % L, wit)
        else:
            R.outcomes['blank:clean'] += 1


# ------------------------------------------------------------ third-wave families

BIG_LEN = {'quick': 2, 'thorough': 3}
UNITS_LEN = {'quick': 2, 'thorough': 3}
UNIT_EXPRS = ('2 K^0.5', '3 J^1.5', 'mol^-0.5', 'cal^0.25 K^2', 'K^-1 mol^-1')
REFUSED_PREFIX = {'quick': 1, 'thorough': 2}


def checked(R, w, ev, hist, tag):
    """Execute one event of a third-wave family on the world, judge the
    observation against the fresh-process baseline, and (decompositions and
    estimates, refused ones included) require every library's data unchanged."""
    before = None
    if ev[0] in ('dec', 'est', 'estd'):
        before = [lib_digest(l['obj']) for l in w.libs]
    obs = apply(w, ev)
    R.evals += 1
    if len(hist) >= 2:
        R.nontrivial += 1
    res = check_observation(R, w, ev, obs, hist, tag)
    R.outcomes['%s:%s:%s' % (tag, ev[0], res)] += 1
    if before is not None:
        for i, l in enumerate(w.libs):
            a, b = lib_digest(l['obj']), before[i]
            if a[:3] != b[:3] or a[4] != b[4]:
                R.violation('%s-changed-library-data' % ev[0], 'after %s, %r changed '
                            'the data of library %d' % (hist, ev, i),
                            dict(kind='hist', history=[list(e) for e in hist],
                                 event=list(ev), universe=tag))
    return obs


def run_big(R, first, tier):
    """Capacity: ALL sequences of BIG_LEN decompositions over molecules whose
    raw match count straddles the matcher's cap, starting with `first`, on
    one library object (thorough: also every length-2 sequence spread over
    two objects of the library); every decomposition judged against the
    fresh-process baseline of that molecule."""
    import itertools
    plans = [((('load', W3.BIG_LIB),), [('dec', 0, m) for m in (first,) + rest])
             for rest in itertools.product(W3.BIG_MOLS, repeat=BIG_LEN[tier] - 1)]
    if tier == 'thorough':
        plans += [((('load', W3.BIG_LIB), ('load', W3.BIG_LIB)),
                   [('dec', i, first), ('dec', j, m)])
                  for i in (0, 1) for j in (0, 1) for m in W3.BIG_MOLS]
    for hist, evs in plans:
        w = rebuild(hist)
        for ev in evs:
            checked(R, w, ev, hist, 'big')
            hist = hist + (ev,)
        R.traces += 1
        R.transitions += len(hist)
    R.sample(dict(capacity_first=len(first), lengths=list(W3.BIG_LENGTHS),
                  sequences=len(plans)), limit=1)


def observe_libraries(R, w, hist, tag):
    for i, L in enumerate(w.libs):
        checked(R, w, ('dump', i), hist, tag)
        if L['family'] == 'syn':
            checked(R, w, ('fmt', i, 'C(C)(H)3'), hist, tag)


def run_units(R, tier):
    """Unit systems: ALL sequences of UNITS_LEN loads over libraries written in different unit systems (bare numbers under a
    `units:` block; units on every number; a shipped library); after every
    load the contents of EVERY live library are compared with a fresh load."""
    import itertools
    n = 0
    for seq in itertools.product(W3.UNITS_ALPHABET, repeat=UNITS_LEN[tier]):
        hist = ()
        w = World()
        for L in seq:
            apply(w, ('load', L))
            hist = hist + (('load', L),)
            observe_libraries(R, w, hist, 'units')
        R.traces += 1
        R.transitions += len(hist)
        n += 1
    # (sixth wave) ALL sequences of <= 2 unit expressions evaluated by the
    # caller (fractional, negative and integer powers of bare unit names that
    # are their own entry of the units table), then every library of the
    # alphabet loaded and compared with a fresh load
    for k in (1, 2):
        for exprs in itertools.product(UNIT_EXPRS, repeat=k):
            for L in W3.UNITS_ALPHABET:
                w = World()
                hist = ()
                for x in exprs:
                    apply(w, ('evalqty', x))
                    hist = hist + (('evalqty', x),)
                try:
                    apply(w, ('load', L))
                except Exception as e:      # noqa
                    R.outcomes['units:load-after-unit-expression-raises'] += 1
                    R.violation('units-expr-breaks-load:%s' % type(e).__name__,
                                'after the caller evaluated %r, Load(%r) raises %s: %s '
                                '(a fresh process loads it)' % (
                                    list(exprs), L, type(e).__name__, str(e)[:160]),
                                dict(kind='hist', history=[list(e2) for e2 in hist],
                                     event=['load', L], universe='units'))
                    continue
                hist = hist + (('load', L),)
                observe_libraries(R, w, hist, 'units')
                R.traces += 1
                R.transitions += len(hist)
                n += 1
    R.sample(dict(units_alphabet=W3.UNITS_ALPHABET, unit_expressions=list(UNIT_EXPRS),
                  load_sequences=n), limit=1)


def refused_worlds(tier):
    out = [('syn', (a, b)) for a in W3.UQ_LIBS for b in W3.UQ_LIBS]
    if tier == 'thorough':
        out.append(('GRWSurface2018', ('GRWSurface2018', 'GRWSurface2018')))
    return out


def run_refused(R, fam, libs, tier):
    """Refused requests: on two live library objects with uncertainty data,
    ALL sequences of <= REFUSED_PREFIX earlier requests - an estimate asked with
    a caller-made mapping (good, or perturbed in one entry so that it has to be
    refused), or an ordinary decompose-and-estimate - on either object,
    followed by an ordinary decompose-estimate-evaluate of every final molecule
    on either object.  Everything observed is judged against the fresh-process
    baseline of the same request; no request may change library data."""
    import itertools
    spec = W3.REFUSED[fam]
    alphabet = []
    for i in (0, 1):
        for pairs in W3.refused_mappings(fam):
            alphabet.append(('estd', i, pairs))
        for m in spec['finals']:
            alphabet.append(('good', i, m))
    finals = [('good', j, m) for j in (0, 1) for m in spec['finals']]
    kmax = REFUSED_PREFIX[tier]
    if fam != 'syn':
        kmax = 1
    n = 0
    for k in range(0, kmax + 1):
        for prefix in itertools.product(alphabet, repeat=k):
            for final in finals:
                hist = tuple(('load', L) for L in libs)
                w = rebuild(hist)
                for req in prefix + (final,):
                    if req[0] == 'estd':
                        evs = [req]
                    else:
                        evs = [('dec', req[1], req[2]), ('est', req[1], len(w.decs))]
                    for ev in evs:
                        obs = checked(R, w, ev, hist, 'refused')
                        hist = hist + (ev,)
                        if ev[0] == 'dec' and obs[0] != 'ok':
                            break
                    else:
                        if w.ests[-1]['obj'] is not None:
                            for p in range(len(EVALS)):
                                checked(R, w, ('eval', len(w.ests) - 1, p), hist, 'refused')
                R.traces += 1
                R.transitions += len(hist)
                n += 1
    R.sample(dict(refused_world=list(libs), requests_alphabet=len(alphabet),
                  mappings=W3.refused_mappings(fam)[:3], finals=spec['finals'],
                  sequences=n), limit=1)


# ------------------------------------------------------------ fourth-wave families

REWRITE_LEN = {'quick': 2, 'thorough': 3}
MERGE_LEN = {'quick': 2, 'thorough': 3}


def observe_fully(R, w, i, m, hist, tag):
    """An ordinary decompose-estimate-evaluate of molecule m on library i,
    every step judged against the fresh-process baseline; returns the
    history extended by the state-changing steps."""
    ev = ('dec', i, m)
    obs = checked(R, w, ev, hist, tag)
    hist = hist + (ev,)
    if obs[0] == 'ok':
        ev = ('est', i, len(w.decs) - 1)
        checked(R, w, ev, hist, tag)
        hist = hist + (ev,)
        if w.ests[-1]['obj'] is not None:
            for p in range(len(EVALS)):
                checked(R, w, ('eval', len(w.ests) - 1, p), hist, tag)
    return hist


def play_prefix(R, plan):
    """plan = list of library names: loaded one after the other in one world;
    after every load the contents of EVERY live library are compared with a
    fresh load."""
    w = World()
    hist = ()
    for L in plan:
        ev = ('load', L)
        apply(w, ev)
        hist = hist + (ev,)
        for i in range(len(w.libs)):
            checked(R, w, ('dump', i), hist, 'prefix')
    R.traces += 1
    R.transitions += len(hist)


def play_rewrite(R, plan):
    """plan = list of variants: the files of each are written to the SAME path
    (one slot), which is then loaded; after every load the contents of every
    live library are compared with a fresh load of the files it was loaded
    from, and every live library decomposes / estimates / evaluates."""
    w = World()
    hist = ()
    for V in plan:
        for ev in (('rewrite', 's', V), ('loadslot', 's')):
            apply(w, ev)
            hist = hist + (ev,)
        for i in range(len(w.libs)):
            checked(R, w, ('dump', i), hist, 'rewrite')
        for i in range(len(w.libs)):
            for m in W4.REWRITE_MOLS:
                hist = observe_fully(R, w, i, m, hist, 'rewrite')
    R.traces += 1
    R.transitions += len(hist)


def play_merge(R, plan):
    """plan = dict(libs=[X, Y], seq=[[target, source, overwrite], ...]) over
    the objects 0 = Load(X), 1 = Load(Y), 2 = GroupLibrary(scheme of 0).
    Every Update must leave every library but its target unchanged; after
    every Update each loaded library that has not been a target so far must
    still equal a fresh load and decompose / estimate / evaluate as in a fresh
    process.  (What a target holds after the merge is C13's subject and is
    judged here only in the depth-bounded search above.)"""
    hist = (('load', plan['libs'][0]), ('load', plan['libs'][1]), ('new', 0))
    w = rebuild(hist)
    touched = set([2])
    for t, s, ow in plan['seq']:
        ev = ('upd', t, s, ow)
        before = [lib_digest(l['obj']) for l in w.libs]
        obs = apply(w, ev)
        R.evals += 1
        R.nontrivial += 1
        R.outcomes['mergeseq:upd:%s' % ':'.join(map(str, obs))] += 1
        for i, l in enumerate(w.libs):
            if i != t and lib_digest(l['obj']) != before[i]:
                R.violation('merge-changed-another-library', 'after %s, Update(%d <- %d, '
                            'overwrite=%s) changed library %d' % (hist, t, s, bool(ow), i), None)
        hist = hist + (ev,)
        touched.add(t)
        for i in (0, 1):
            if i not in touched:
                checked(R, w, ('dump', i), hist, 'mergeseq')
                hist = observe_fully(R, w, i, W4.MERGE_MOL, hist, 'mergeseq')
    R.traces += 1
    R.transitions += len(hist)


# ------------------------------------------------------------ fifth-wave families

def play_edit(R, plan):
    """plan = dict(libs=[X, Y], upds=[[target, source, overwrite], ...],
    edit=[object, group, route]) over the objects 0 = Load(X), 1 = Load(Y),
    2 = GroupLibrary(scheme of 0).  After the Updates (each of which must
    leave every object but its target unchanged) the caller edits, in place,
    the correlation one object holds for a group.  That is an operation on
    that object alone: every OTHER object must be what it was before the
    edit, and each loaded library that has been neither a target nor edited
    must still equal a fresh load and decompose / estimate / evaluate as in a
    fresh process."""
    hist = (('load', plan['libs'][0]), ('load', plan['libs'][1]), ('new', 0))
    w = rebuild(hist)
    touched = set([2])
    for t, s, ow in plan['upds']:
        ev = ('upd', t, s, ow)
        before = [lib_digest(l['obj']) for l in w.libs]
        obs = apply(w, ev)
        R.evals += 1
        R.nontrivial += 1
        R.outcomes['editseq:upd:%s' % ':'.join(map(str, obs))] += 1
        for i, l in enumerate(w.libs):
            if i != t and lib_digest(l['obj']) != before[i]:
                R.violation('merge-changed-another-library', 'after %s, Update(%d <- %d, '
                            'overwrite=%s) changed library %d' % (hist, t, s, bool(ow), i), None)
        hist = hist + (ev,)
        touched.add(t)
    e, g, op = plan['edit']
    ev = ('edit', e, g, op)
    before = [lib_digest(l['obj']) for l in w.libs]
    obs = apply(w, ev)
    R.evals += 1
    R.nontrivial += 1
    R.outcomes['editseq:edit:%s:%s' % (op, ':'.join(map(str, obs)))] += 1
    for i, l in enumerate(w.libs):
        if i != e and lib_digest(l['obj']) != before[i]:
            R.violation('edit-changed-another-library', 'after %s, the caller\'s in-place '
                        'edit %s of the correlation library %d holds for %s changed '
                        'library %d' % (hist, op, e, g, i), None)
    hist = hist + (ev,)
    touched.add(e)
    for i in (0, 1):
        if i not in touched:
            checked(R, w, ('dump', i), hist, 'editseq')
            hist = observe_fully(R, w, i, W4.MERGE_MOL, hist, 'editseq')
    R.traces += 1
    R.transitions += len(hist)


def edit_plans(libs, target, tier):
    """All sequences of k Updates (k in W5.EDIT_UPDATES) whose first Update
    has the given target, each followed by every edit event."""
    import itertools
    upds = W4.merge_events()
    out = []
    for k in W5.EDIT_UPDATES[tier]:
        for seq in itertools.product(upds, repeat=k):
            if seq[0][0] != target:
                continue
            for ed in W5.edit_events():
                out.append(dict(libs=list(libs), upds=[list(u) for u in seq], edit=list(ed)))
    return out


def play_env(R, plan):
    """plan = list of [value, library]: before each load of a shipped library
    by name the caller sets pgradd_DATA_DIR to the value (or removes it).
    Each load is judged by W5.EnvModel (as a fresh process started with the
    value now in force, until an existing directory has been in force at a
    load; afterwards by outcome class where a fresh process and the
    documented once-only resolution agree).  After every load every live
    library must dump as a fresh load, and the new one decomposes, estimates
    and evaluates as in a fresh process.  To be run in a process that has
    imported the package and done nothing else."""
    w = World()
    hist = ()
    model = W5.EnvModel()
    for v, L in plan:
        ev = ('envload', v, L)
        mode, ref = model.expect(v)
        n = len(w.libs)
        obs = apply(w, ev)
        R.evals += 1
        if hist:
            R.nontrivial += 1
        base = baseline(('%s@%s' % (L, ref),), W5.ENV_MOL).get('load')
        if mode == 'as-fresh':
            bad = obs != base
        elif mode in ('ok', 'exc'):
            bad = obs[0] != mode
        else:
            bad = False
        R.outcomes['envseq:load:%s:%s' % (mode, 'DIFFERS' if bad else obs[0])] += 1
        if bad:
            R.violation('load-differs-after-environment-history',
                        'after %s, Load(%r) with %s %s gave %r; %s' % (
                            hist, L, W5.ENVVAR,
                            'removed' if env_value(v) is None else '= %r' % env_value(v), obs,
                            ('a fresh process started with that value gives %r' % (base,))
                            if mode == 'as-fresh' else
                            'a fresh process and the once-only resolution both give %r' % mode),
                        None)
        hist = hist + (ev,)
        model.loaded(v)
        if len(w.libs) > n:
            # all directories of kind 'data' hold the same bytes: the library is
            # judged as the fresh load under the reference value
            w.libs[-1]['ident'] = ('%s@%s' % (L, ref),)
        for i in range(len(w.libs)):
            checked(R, w, ('dump', i), hist, 'envseq')
        if len(w.libs) > n:
            hist = observe_fully(R, w, len(w.libs) - 1, W5.ENV_MOL, hist, 'envseq')
    R.traces += 1
    R.transitions += len(hist)


def in_child(player, plan):
    """Run one plan in a forked copy of this process - which must have done
    nothing but import the package - and return the packed Result."""
    import traceback
    r, wfd = os.pipe()
    pid = os.fork()
    if pid == 0:
        try:
            os.close(r)
            Rp = Result()
            player(Rp, plan)
            blob = json.dumps(Rp.pack(), default=str).encode()
        except BaseException:      # noqa
            blob = json.dumps(dict(crash=traceback.format_exc()[-1500:])).encode()
        try:
            with os.fdopen(wfd, 'wb') as f:
                f.write(blob)
        finally:
            os._exit(0)
    os.close(wfd)
    chunks = []
    with os.fdopen(r, 'rb') as f:
        while True:
            c = f.read(65536)
            if not c:
                break
            chunks.append(c)
    os.waitpid(pid, 0)
    out = json.loads(b''.join(chunks).decode() or '{"crash": "child wrote nothing"}')
    if 'crash' in out:
        raise RuntimeError('plan %r crashed in its process: %s' % (plan, out['crash']))
    return out


def run_env_plans(R, plans):
    """Each plan in a process of its own: a fork of this one, which imports the
    package here and never loads, decomposes or estimates anything itself.
    A witness is the one plan (replayed in the fresh replay process)."""
    import pgradd.ThermoChem   # noqa
    from pgradd.GroupAdd.Library import GroupLibrary   # noqa
    from rdkit import Chem   # noqa
    for plan in plans:
        out = in_child(play_env, plan)
        R.evals += out['evals']
        R.nontrivial += out['nontrivial']
        R.outcomes.update(out['outcomes'])
        R.traces += out['traces']
        R.transitions += out['transitions']
        for v in out['violations']:
            wit = dict(kind='plans', family='envseq', key=v['key'], plans=[plan])
            for _ in range(v['count']):
                R.violation(v['key'], v['msg'], wit)
    R.extra['envseq_plans'] += len(plans)
    R.extra['envseq_processes'] += len(plans)
    if plans:
        R.sample(dict(family='envseq', plans=len(plans), first_plan=plans[0],
                      last_plan=plans[-1]), limit=1)


PLAYERS = {'prefix': play_prefix, 'rewrite': play_rewrite, 'mergeseq': play_merge,
           'editseq': play_edit, 'envseq': play_env}


def run_plans(R, family, plans):
    """Execute the plans of one shard one after the other in this process,
    each on a world of its own.  Process-wide state survives from plan to
    plan, so a witness carries every plan executed so far."""
    done = []
    for plan in plans:
        done.append(plan)
        Rp = Result()
        PLAYERS[family](Rp, plan)
        R.evals += Rp.evals
        R.nontrivial += Rp.nontrivial
        R.outcomes.update(Rp.outcomes)
        R.traces += Rp.traces
        R.transitions += Rp.transitions
        for v in Rp.violations:
            wit = None
            if not any(x['key'] == v['key'] for x in R.violations):
                wit = dict(kind='plans', family=family, key=v['key'],
                           plans=json.loads(json.dumps(done)))
            for _ in range(v['count']):
                R.violation(v['key'], v['msg'], wit)
    R.extra['%s_plans' % family] += len(plans)
    if plans:
        R.sample(dict(family=family, plans=len(plans), first_plan=plans[0],
                      last_plan=plans[-1]), limit=1)


def prefix_plans(first, tier):
    import itertools
    plans = [[first, q] for q in W4.PREFIX_LIBS]
    if tier == 'thorough' and first in W4.PREFIX_SUB:
        plans += [[first] + list(r) for r in itertools.product(W4.PREFIX_SUB, repeat=2)]
    return plans


def rewrite_plans(tier):
    import itertools
    return [list(p) for n in range(2, REWRITE_LEN[tier] + 1)
            for p in itertools.product(W4.REWRITE_VARIANTS, repeat=n)]


def merge_plans(libs, tier):
    import itertools
    return [dict(libs=list(libs), seq=[list(e) for e in seq])
            for n in range(2, MERGE_LEN[tier] + 1)
            for seq in itertools.product(W4.merge_events(), repeat=n)]


def shards(tier, seed):
    base = syn_dir()
    table = precompute(tier)
    out = [('bfs',) + u + (base, table) for u in universes(tier)]
    out += [('cross', 'synA', 'BensonGA', base, table),
            ('cross', 'BensonGA', 'synA', base, table),
            ('blank', base, table)]
    out += [('seq', ('load', 'synA'), base, table), ('seq', ('load', 'synB'), base, table)]
    out += [('big', m, base, table) for m in W3.BIG_MOLS]
    out += [('units', base, table)]
    firsts = []
    for fam, libs in refused_worlds(tier):
        if (fam, libs[0]) not in firsts:
            firsts.append((fam, libs[0]))
    out += [('refused', fam, first, base, table) for fam, first in firsts]
    out += [('prefix', L, base, table) for L in W4.PREFIX_LIBS]
    out += [('rewrite', base, table)]
    out += [('mergeseq', libs, base, table) for libs in W4.merge_worlds(tier)]
    out += [('editseq', libs, t, base, table) for libs in W4.merge_worlds(tier)
            for t in (0, 1, 2)]
    out += [('envseq', step, base, table) for step in W5.env_steps(tier)]
    return out


def cleanup():
    import shutil
    if _SYN_DIR.get('own'):
        shutil.rmtree(_SYN_DIR['own'], ignore_errors=True)


def adopt(base, table):
    _SYN_DIR['d'] = base
    for ident, m, fmt, v in table:
        _BASE[(tuple(ident), m, fmt)] = v
    for ident, m, fmt, v in table:
        # the fresh process of a (library, molecule) request dumps the library
        # before it does anything else: that dump serves a contents-only
        # request for which no process of its own was run
        if m is not None and fmt is None and 'dump' in v:
            _BASE.setdefault((tuple(ident), None, None), {'dump': v['dump']})


def run_shard(shard, tier):
    R = Result()
    adopt(shard[-2], shard[-1])
    if shard[0] == 'bfs':
        run_universe(R, shard[1], tuple(shard[2]), shard[3], shard[4], tier)
    elif shard[0] == 'cross':
        run_cross(R, shard[1], shard[2], tier)
    elif shard[0] == 'blank':
        run_blank(R)
    elif shard[0] == 'big':
        run_big(R, shard[1], tier)
    elif shard[0] == 'units':
        run_units(R, tier)
    elif shard[0] == 'refused':
        for fam, libs in refused_worlds(tier):
            if fam == shard[1] and libs[0] == shard[2]:
                run_refused(R, fam, libs, tier)
    elif shard[0] == 'prefix':
        run_plans(R, 'prefix', prefix_plans(shard[1], tier))
    elif shard[0] == 'rewrite':
        run_plans(R, 'rewrite', rewrite_plans(tier))
    elif shard[0] == 'mergeseq':
        run_plans(R, 'mergeseq', merge_plans(shard[1], tier))
    elif shard[0] == 'editseq':
        run_plans(R, 'editseq', edit_plans(shard[1], shard[2], tier))
    elif shard[0] == 'envseq':
        run_env_plans(R, W5.env_plans(shard[1], tier))
    else:
        run_stateless(R, tuple(shard[1]), tier)
    R.extra['max_fresh_process_baselines'] = len(_BASE)
    return R


def replay(w):
    R = Result()
    syn_dir()
    if w.get('kind') == 'blank':
        run_blank(R)
        return dict(violates=bool(R.violations), detail='; '.join(
            v['msg'] for v in R.violations) or 'holds', _cleanup=cleanup())
    if w.get('kind') == 'plans':
        # the whole sequence of plans the shard's process had executed
        for plan in w['plans']:
            PLAYERS[w['family']](R, plan)
        hit = [v for v in R.violations if v['key'] == w.get('key')]
        return dict(violates=bool(hit),
                    detail='\n'.join(v['key'] + ': ' + v['msg'] for v in hit[:3]) or
                    'holds (%d plans re-executed)' % len(w['plans']),
                    _cleanup=cleanup())
    hist = tuple(tuple(e) for e in w['history'])
    ev = tuple(w['event'])
    world = rebuild(hist)
    before = world.digest()
    obs = apply(world, ev)
    check_observation(R, world, ev, obs, hist, w.get('universe'))
    if ev[0] in PURE and world.digest() != before:
        R.violation('observation-changed-state:%s' % ev[0], 'state changed', w)
    return dict(violates=bool(R.violations),
                detail='\n'.join(v['key'] + ': ' + v['msg'] for v in R.violations[:3]) or 'holds',
                _cleanup=cleanup())
