"""C06 - no property is returned outside the valid range unsignalled.

Every correlation of the family K (three classes), every group of every
shipped library, and every estimate over <= 3 groups from the range-shape
classes x the inside/outside temperature grid.
"""
import math

from ..runner import Result
from ..models import thermoref as tr
from ..domains import estimates as E
from ..domains import libs
from . import c05

LEVEL = 'exploration'
LIBS = libs.LIBS + ['synthetic']
BOUND = {t: 'family K of C05 (%s tier) x 3 classes; every group of 9 libraries '
            '+ synthetic; all unit, class-pair and class-triple mappings; '
            'inside grid (ends, middle, T_ref, knots, midpoints) and outside '
            'grid (one ulp, 1e-6 relative, 100 K beyond each end; 0 K; -10 K)'
            % t for t in ('quick', 'thorough')}
RULE = ('every correlation / estimate is evaluated for Cp/R, H/RT, S/R at '
        'every grid temperature; outside: the call must raise, or (only when a '
        'constituent has no heat-capacity data) record an IncompleteDataWarning; '
        'inside: every property with data is a finite plain number; the '
        'reported range of an estimate equals the intersection of constituent '
        'ranges.  Non-trivial = an outside temperature, a range end, or an '
        'estimate whose constituents have different ranges')
ASSUMPTIONS = ['numpy floating scalars count as plain numbers; Quantity objects '
               'and arrays do not',
               'estimates whose constituent ranges are disjoint are not judged '
               '(statement silent)',
               'correlations without any range are judged on the inside clause '
               'only']
MANIFEST = dict(
    technique='exhaustive enumeration of correlations/estimates x boundary '
              'temperature grid',
    text='All members of the synthetic correlation family, all shipped groups '
         'and all small estimates are evaluated just inside, at, one ulp / '
         '1e-6 / 100 K outside each range bound and at 0 K and -10 K: outside '
         'the range every property must raise (or warn through a constituent '
         'without heat-capacity data), inside it must be a finite plain '
         'number, and an estimate must report the intersection of its '
         'constituents\' ranges.',
    note='Temperatures are grid points; disjoint constituent ranges are not '
         'in the alphabet.',
    ref='5/C06')
P3 = ['get_CpoR', 'get_HoRT', 'get_SoR']


def has_data(k, prop):
    """Does the correlation (ThermochemIncomplete-like) have data for prop?"""
    if not hasattr(k, 'ND_Cp_data'):
        return True
    if prop == 'get_CpoR':
        return bool(k.ND_Cp_data)
    if prop == 'get_HoRT':
        return k.ND_H_ref is not None
    return k.ND_S_ref is not None


def judge(R, tag, obj, rng, knots, tref, cons, wit, expect_data):
    """obj: correlation or estimate; cons: constituent correlations."""
    if rng is None:
        # no range reported: only temperatures every reading of the statement
        # calls valid are judged - the tabulated span, else T_ref alone
        ks = sorted(knots)
        inside = sorted(set(ks + [0.5 * (a + b) for a, b in zip(ks[:-1], ks[1:])]
                            + ([tref] if (not ks or ks[0] <= tref <= ks[-1]) else [])))
        outside = []
    else:
        inside, outside = tr.temperature_grid(rng[0], rng[1], tref, knots)
    nocp = any(hasattr(k, 'ND_Cp_data') and not k.ND_Cp_data for k in cons)
    for T in inside:
        for prop in P3:
            R.evals += 1
            if rng is not None and T in rng:
                R.nontrivial += 1
            r = E.ev(getattr(obj, prop), T)
            if not expect_data(prop):
                R.outcomes['inside:no-data'] += 1
                continue
            if r[0] != 'ok':
                R.outcomes['inside:raises'] += 1
                R.violation('inside-raises:%s:%s:%s' % (tag, prop, r[1]),
                            '%s: %s(%r) inside the range %r raised %s' % (
                                wit.get('what'), prop, T, rng, r[1]), wit)
            elif not E.is_plain_finite(r[1]):
                R.outcomes['inside:not-plain-finite'] += 1
                R.violation('inside-not-plain:%s:%s' % (tag, prop),
                            '%s: %s(%r) = %r (%s) is not a finite plain number'
                            % (wit.get('what'), prop, T, r[1], type(r[1]).__name__), wit)
            else:
                R.outcomes['inside:finite'] += 1
    if rng is not None and hasattr(obj, 'spline') and outside:
        # ThermochemRawData accepts arrays for Cp: one outside element is enough
        import numpy as np
        mid = 0.5 * (rng[0] + rng[1])
        for T in outside:
            R.evals += 1
            R.nontrivial += 1
            for arr in (np.array([mid, T]), np.array([T, mid]), np.array([mid, mid, T])):
                r = E.ev(obj.get_CpoR, arr)
                if r[0] != 'exc':
                    R.outcomes['outside:array-unsignalled'] += 1
                    R.violation('outside-unsignalled:%s:array' % tag,
                                '%s: get_CpoR(%r) with one temperature outside %r returned %r'
                                % (wit.get('what'), list(arr), rng, r[1]), wit)
                    break
            else:
                R.outcomes['outside:array-raises'] += 1
    for T in outside:
        for prop in P3:
            R.evals += 1
            R.nontrivial += 1
            r = E.ev(getattr(obj, prop), T)
            if r[0] == 'exc':
                R.outcomes['outside:raises'] += 1
            elif 'IncompleteDataWarning' in r[2] and nocp:
                R.outcomes['outside:warned(no Cp data)'] += 1
            elif not expect_data(prop):
                R.outcomes['outside:no-data'] += 1
            else:
                R.outcomes['outside:unsignalled'] += 1
                side = 'below' if T < rng[0] else 'above'
                near = 'near' if (abs(T - rng[0]) < 1 or abs(T - rng[1]) < 1) else 'far'
                R.violation('outside-unsignalled:%s:%s:%s-%s' % (tag, prop, side, near),
                            '%s: %s(%r) outside the range %r returned %r without '
                            'error or incomplete-data warning' % (
                                wit.get('what'), prop, T, rng, r[1]), wit)


def run_K(R, N, spacing, shape, pl, tier, only=None):
    Ts, Cps, c = c05.table(N, spacing, shape)
    Tref = c05.tref_for(Ts, pl)
    if Tref is None:
        return
    for rname, rng in c05.ranges_for(Ts, Tref):
        for cls_name in ('RawData', 'Incomplete', 'Group'):
            desc = dict(N=N, spacing=spacing, shape=shape, placement=pl,
                        range=rname, cls=cls_name)
            if only is not None and only != desc:
                continue
            k = c05.build(cls_name, -12.5, 31.25, Ts, Cps, Tref, rng, list(range(N)))
            eff = rng if rng is not None else (Ts[0], Ts[-1])
            got = k.get_range()
            if cls_name == 'RawData' or rng is not None:
                if got is None or abs(got[0] - eff[0]) > 1e-9 or abs(got[1] - eff[1]) > 1e-9:
                    R.violation('range-reported:' + cls_name,
                                '%r reports range %r, expected %r' % (desc, got, eff),
                                dict(kind='K', desc=desc, what=str(desc)))
            else:
                eff = None if got is None else eff
            judge(R, 'K:' + cls_name, k, got if got is not None else None, Ts, Tref,
                  [k], dict(kind='K', desc=desc, what=str(desc)), lambda p: True)
    # a declared range that does NOT contain the whole table: the constructor
    # may refuse it; if an object comes out, it is judged like any other
    if len(Ts) >= 3 and Ts[0] <= Tref <= Ts[-1]:
        lo_n = max(Ts[0] + 1.0, min(Tref, Ts[1]) - 0.0) if Tref > Ts[0] else Ts[0]
        narrow = (min(Tref, Ts[1]), max(Tref, Ts[1]) + 0.5 * (Ts[2] - Ts[1]))
        for cls_name in ('RawData', 'Incomplete', 'Group'):
            desc = dict(N=N, spacing=spacing, shape=shape, placement=pl,
                        range='narrower-than-table', cls=cls_name)
            if only is not None and only != desc:
                continue
            R.evals += 1
            R.nontrivial += 1
            try:
                k = c05.build(cls_name, -12.5, 31.25, Ts, Cps, Tref, narrow, list(range(N)))
            except Exception as e:      # noqa
                R.outcomes['narrow-range:refused(%s)' % type(e).__name__] += 1
                continue
            R.outcomes['narrow-range:constructed'] += 1
            got = k.get_range()
            judge(R, 'K-narrow:' + cls_name, k, got, [t for t in Ts if got and got[0] <= t <= got[1]],
                  Tref, [k], dict(kind='K', desc=desc, what=str(desc)), lambda p: True)
    R.sample(dict(table=Ts[:4], T_ref=Tref, placement=pl), limit=1)


def run_groups(R, name, only=None):
    lib = E.library(name)
    for g in E.with_data(lib):
        if only is not None and str(g) != only:
            continue
        k = lib[g]['thermochem']
        rng = k.get_range()
        rng = None if rng is None else (float(rng[0]), float(rng[1]))
        judge(R, 'group', k, rng, sorted(float(t) for t in k.ND_Cp_data),
              float(k.T_ref), [k],
              dict(kind='group', lib=name, group=str(g), what='%s[%s]' % (name, g)),
              lambda p, k=k: has_data(k, p))


def run_estimates(R, name, i, n, only=None):
    lib = E.fresh(name)
    for num, (tag, mapping) in enumerate(E.mappings(lib, 'quick')):
        if num % n != i and only is None:
            continue
        if tag == 'unit' and mapping[0][1] not in (1, -1, 0.5):
            continue
        m2 = [[str(g), c] for g, c in mapping]
        if only is not None and m2 != only:
            continue
        wit = dict(kind='est', lib=name, mapping=m2, what='%s estimate %r' % (name, m2))
        r = E.ev(lib.Estimate, dict((str(g), c) for g, c in mapping), 'thermochem')
        if r[0] != 'ok':
            R.violation('estimate-raises:' + r[1], '%s: Estimate raised %s' % (
                wit['what'], r[1]), wit)
            continue
        e = r[1]
        cons = [lib[g]['thermochem'] for g, _ in mapping]
        want = E.common_range(lib, mapping)
        got = e.get_range()
        got = None if got is None else (float(got[0]), float(got[1]))
        R.evals += 1
        distinct = len(set(str(k.get_range()) for k in cons)) > 1
        if distinct:
            R.nontrivial += 1
        if want is not None and want[0] > want[1]:
            R.outcomes['unjudged(disjoint constituent ranges)'] += 1
            continue
        if (got is None) != (want is None) or (
                got is not None and (abs(got[0] - want[0]) > 1e-9 or
                                     abs(got[1] - want[1]) > 1e-9)):
            R.outcomes['range:wrong'] += 1
            R.violation('estimate-range', '%s reports range %r, intersection of '
                        'constituent ranges is %r' % (wit['what'], got, want), wit)
            continue
        R.outcomes['range:intersection'] += 1
        knots = sorted(set(float(t) for k in cons for t in k.ND_Cp_data))
        tref = float(cons[0].T_ref)
        judge(R, 'estimate', e, want, knots, tref, cons, wit,
              lambda p, cons=cons: all(has_data(k, p) for k in cons))
        if distinct:
            R.sample(dict(library=name, mapping=m2, range=want), limit=1)


def shards(tier, seed):
    out = []
    for s in c05.shards(tier, seed):
        if s[0] == 'K':
            out.append(s)
    for name in LIBS:
        out.append(('groups', name))
        for i in range(3):
            out.append(('est', name, i, 3))
    return out


def run_shard(shard, tier):
    R = Result()
    if shard[0] == 'K':
        run_K(R, shard[1], shard[2], shard[3], shard[4], tier)
    elif shard[0] == 'groups':
        run_groups(R, shard[1])
    else:
        run_estimates(R, shard[1], shard[2], shard[3])
    return R


def replay(w):
    R = Result()
    if w['kind'] == 'K':
        d = w['desc']
        run_K(R, d['N'], d['spacing'], d['shape'], d['placement'], 'thorough', only=d)
    elif w['kind'] == 'group':
        run_groups(R, w['lib'], only=w['group'])
    else:
        run_estimates(R, w['lib'], 0, 1, only=w['mapping'])
    return dict(violates=bool(R.violations),
                detail='\n'.join(v['msg'] for v in R.violations[:5]) or 'holds')
