"""C06 - no property is returned outside the valid range unsignalled.

Every correlation of the family K (three classes), every group of every
shipped library, and every estimate over <= 3 groups from the range-shape
classes x the inside/outside temperature grid.

Third wave (alphabets in mc/domains/w3_c06.py):
* the grid of every object also holds every temperature that means something
  to one of its constituents - each constituent's T_ref, table points and
  range ends - probed as an inside or an outside temperature according to the
  side of the (common) range it falls on;
* temperature ARRAYS (float; integer dtype when the values are whole numbers;
  the outside element at every position of every length 2..4 and at every cell
  of a 2x2 grid - sixth wave, C06-m17; a fresh array per call) are given to get_CpoR of every object that has a range - raw-data,
  incomplete and group correlations, shipped groups, estimates - not only to
  ThermochemRawData;
* family Z: correlations without a heat-capacity table (control: a one-point
  table) x 2 classes x (H+S, H only, S only) x 2 reference temperatures x 9
  placements of the declared range relative to T_ref (none, containing, an end
  at T_ref, the single point T_ref, above / below T_ref by one ulp and by 2 K);
* family HIST: histories [Estimate(m)] (Update(piece) Estimate(m))* on a
  five-group library made with the GroupLibrary constructor (range beyond the
  table, narrow, one-point table, no table with range, no table without
  range); pieces: range widened upwards (with further table points), range
  widened downwards, a table / a range given to a group that had none; all
  ordered selections of <= 2 (thorough: 3) applicable pieces x with/without an
  estimate requested before the first update x 5 unit + 20 ordered pair
  mappings; the expected range comes from a dictionary model of the pieces;
* family SETRANGE: every sequence of <= 2 set_range() calls over 6 placements
  of the new range (cut above the table, cut into the table, cut below,
  widened, none, the single point T_ref) on the five base groups as
  ThermochemIncomplete, ThermochemGroup and ThermochemRawData; after each
  accepted call the object must report the new range and is judged on the grid.

Fourth wave (alphabets in mc/domains/w4_c06.py):
* oracle repaired: an answer WITHOUT any signal at a temperature outside the
  range is a violation whether or not the object has data for the property
  (the outside clause of the statement carries no has-data qualifier).  Until
  then such an answer was tallied as 'outside:no-data' when a constituent
  lacked the data, i.e. exactly when an implementation that leaves that
  constituent out of the sum answers silently; the tally was zero on the
  unchanged tree (missing data raises);
* family SETRANGE, pre-evaluated histories: every sequence above is run a
  second time on an object that is evaluated - and judged - on the grid BEFORE
  the first call; in these histories every step (the one before the first
  call included) probes the union of the grids of all ranges the history goes
  through, so every temperature asked for after a set_range() was asked for
  on the same object before it, on whichever side of the then-current range
  it fell (inside then outside, outside then inside, ...);
* family MIX: estimates on a constructor-built library over a partner group
  (wide range with a six-point table, one-point table, no table; thorough also
  narrow four-point) and a group LACKING data (no table / no table and no S /
  no table and no H / table but no H / table but no S / table only) whose
  declared range is the partner's, cut above, cut below, cut on both sides,
  wider, and - table-less shapes only - none, excluding T_ref, the single
  point T_ref; x 4 count pairs (1,1) (2,-1) (1,0) (0,1) x both orders of the
  mapping; thorough adds triples partner + two lacking groups under every
  ordered pair of distinct placements.  Expected range / has-data from a
  dictionary model of the descriptions.

Fifth wave (alphabets in mc/domains/w5_c06.py):
* family SETRANGE, refused calls: a set_range() call that raises no longer
  ends its history.  The object is judged on the grid (and, in the
  pre-evaluated histories, on the union of the grids of the history) against
  whatever range it reports after the refusal - the statement does not say
  which range that has to be, but the object must honour the one it reports -
  and the history goes on with the next call, so that all (refused, accepted),
  (refused, refused) and (accepted, refused) pairs are walked.  Two further
  placements that an object with a table must refuse join the alphabet: a
  range that excludes only T_ref, and one that excludes the lowest table
  points (8 placements per base group);
* family RNG: estimates on a constructor-built library over complete groups
  whose declared ranges are ALL intervals over the endpoint alphabet
  {Z, 100, 300, 400, 1000} K with Z = 0 K in every presentation of zero (0.0,
  -0.0, integer 0, smallest denormal; thorough also 1e-300, 1e-9): every
  ordered pair of intervals (a repeated interval = two groups with equal
  ranges), and every ordered triple over a reduced alphabet.  All relations
  two ranges can have occur in both orders of the mapping: disjoint, meeting
  in one point, overlapping, nested with a common lower / upper bound or
  none, equal;
* DISJOINT constituent ranges are now judged (RNG, and the thorough triples
  of MIX): the intersection is empty, so the estimate must be refused
  (Estimate raises) or report a range that contains no temperature (lower
  bound > upper bound) and then signal at every temperature; reporting a
  range that contains a temperature, or no range limits, is a violation.
"""
import math

from ..runner import Result
from ..models import thermoref as tr
from ..domains import estimates as E
from ..domains import libs
from ..domains import w3_c06 as W3
from ..domains import w4_c06 as W4
from ..domains import w5_c06 as W5
from . import c05

LEVEL = 'exploration'
LIBS = libs.LIBS + ['synthetic']
# BOUND is computed at the end of the module (it counts the enumerated
# histories with the generators defined below)
RULE = ('every correlation / estimate is evaluated for Cp/R, H/RT, S/R at '
        'every grid temperature; outside: the call must raise, or (only when a '
        'constituent has no heat-capacity data) record an IncompleteDataWarning; '
        'inside: every property with data is a finite plain number; the '
        'reported range of an estimate equals the intersection of constituent '
        'ranges.  Non-trivial = an outside temperature, a range end, or an '
        'estimate whose constituents have different ranges.  Arrays: Cp of an '
        'array holding one outside temperature must raise (or warn as above).  '
        'Z: a correlation whose declared range contains T_ref and its table '
        'must be constructible and report that range; whatever object comes '
        'out is put on the grid.  HIST: every estimate requested in a history '
        'must report the intersection of the ranges its groups have at that '
        'moment (dictionary model of the merged pieces); the estimate '
        'requested last is put on the grid, with has-data / no-heat-capacity '
        'taken from the model, not from the library.  Outside the range an '
        'answer without error or warning is a violation also for a property '
        'the object has no data for.  SETRANGE: after every accepted '
        'set_range() the object reports the new range and is judged on the '
        'grid against it; in the pre-evaluated histories also before the '
        'first call, every step on the union of the grids of the history.  '
        'MIX: the estimate reports the intersection of the declared ranges '
        '(dictionary model) and is judged on the grid, has-data / '
        'no-heat-capacity taken from the descriptions.  SETRANGE, refused '
        'call: the object is judged on the same grids against whatever range '
        'it reports after the refusal, then the history continues.  RNG: the '
        'estimate over groups with interval ranges reports exactly (max of '
        'the lower bounds, min of the upper bounds) and is judged on the '
        'grid; when that intersection is empty the estimate must be refused '
        'or report a range without any temperature in it (lower > upper '
        'bound) and signal everywhere')
ASSUMPTIONS = ['numpy floating scalars count as plain numbers; Quantity objects '
               'and arrays do not',
               'constituent ranges that do not intersect: a refusal (Estimate '
               'raises) and a reported range with lower bound > upper bound '
               'both count as reporting the empty intersection (RNG family, '
               'thorough MIX triples); in the shipped-library family such an '
               'estimate, if one came out, is still not judged (none occurs '
               'in the shipped data)',
               'correlations without any range are judged on the inside clause '
               'only',
               'an estimate object obtained BEFORE a later Update() is not '
               'judged after it (statement silent about stale objects); only '
               'estimates requested after the update are',
               'Update() merges ranges as their union (C13 judges that); the '
               'HIST model uses it to predict the range of a merged group',
               'arrays are offered to get_CpoR only (H/RT and S/R do not accept '
               'arrays on any path)',
               'the statement is silent about which ranges set_range() may '
               'refuse and about which range the object has to report after a '
               'refusal: neither is judged, but the object is judged against '
               'the range it does report (until the fifth wave a refused call '
               'ended its history without a verdict)',
               'RNG family: inside temperatures below 1 K are not probed (a '
               'range may start at 0 K, where H/RT has a pole for every '
               'implementation); 0 K and below stay on the outside grid',
               'a group WITH a heat-capacity table and without a declared range '
               'is not a constituent in the MIX family (it reports no range but '
               'enforces its table span; statement silent about which is its '
               'valid range)',
               'a constituent with count 0 still takes part in the range and '
               'in the signalling (as in the shipped-library estimate family)']
MANIFEST = dict(
    technique='exhaustive enumeration of correlations/estimates x boundary '
              'temperature grid; operation sequences Estimate/Update on a '
              'small library and evaluate/set_range (accepted and refused) on '
              'single correlations vs a dictionary model; all ordered pairs / '
              'triples of interval ranges incl. disjoint ones',
    text='All members of the synthetic correlation family, all shipped groups '
         'and all small estimates are evaluated just inside, at, one ulp / '
         '1e-6 / 100 K outside each range bound, at 0 K and -10 K and at every '
         'constituent\'s reference temperature, table points and range ends '
         '(scalars, and for Cp also float/integer arrays with one outside '
         'element): outside the range every property must raise (or warn '
         'through a constituent without heat-capacity data), inside it must '
         'be a finite plain number, and an estimate must report the '
         'intersection of its constituents\' ranges - also when requested '
         'again after Update() changed a constituent (all histories of <= 2 '
         'updates, thorough 3, over a five-group library), and for '
         'correlations without a table whose declared range is placed in '
         'every way relative to the reference temperature.  Single '
         'correlations are taken through every sequence of <= 2 set_range() '
         'calls, without and with an evaluation on the grid before the first '
         'call (in the latter, every temperature of the history is asked for '
         'before and after each call).  Estimates that mix a complete group with a group '
         'lacking the table, H or S - the lacking one bounding the range from '
         'above, below, both sides or not at all - must signal outside the '
         'range for every property, also the one the lacking group has no '
         'data for.  A set_range() call that is refused does not end the '
         'history: the object must go on honouring whatever range it reports '
         '(all pairs of refused / accepted calls over 8 placements).  '
         'Estimates over groups whose ranges are all intervals over five '
         'endpoints - 0 K written as 0.0, -0.0, integer 0 and the smallest '
         'denormal - in every ordered pair and small ordered triple must '
         'report exactly the intersection; ranges that do not intersect must '
         'give no estimate or an estimate with an empty range that signals '
         'everywhere.',
    note='Temperatures are grid points; estimate objects made before an '
         'Update() are not judged afterwards; inside temperatures below 1 K '
         'are not probed when a synthetic range starts at 0 K.',
    ref='5/C06')
P3 = ['get_CpoR', 'get_HoRT', 'get_SoR']


def has_data(k, prop):
    """Does the correlation (ThermochemIncomplete-like) have data for prop?"""
    if not hasattr(k, 'ND_Cp_data'):
        return True
    if prop == 'get_CpoR':
        return bool(k.ND_Cp_data)
    if prop == 'get_HoRT':
        return k.ND_H_ref is not None
    return k.ND_S_ref is not None


def judge(R, tag, obj, rng, knots, tref, cons, wit, expect_data, special=(),
          keyfn=None, inkeyfn=None, inside_floor=None):
    """obj: correlation or estimate; cons: constituent correlations (or
    stand-ins with ND_Cp_data / ND_H_ref / ND_S_ref).  special: further
    temperatures that mean something to a constituent (every constituent's
    T_ref and range ends); together with the knots and tref they are probed
    on whichever side of the range they fall.  keyfn(key, T, prop) may rename
    the key of an outside violation, inkeyfn(key, T, prop, exception name) that
    of an inside-raises violation (neither ever suppresses one).
    inside_floor (fifth wave, RNG family only): inside temperatures below it
    are counted and not probed (H/RT has a pole at 0 K)."""
    import numpy as np
    if rng is None:
        # no range reported: only temperatures every reading of the statement
        # calls valid are judged - the tabulated span, else T_ref alone
        ks = sorted(knots)
        inside = sorted(set(ks + [0.5 * (a + b) for a, b in zip(ks[:-1], ks[1:])]
                            + ([tref] if (not ks or ks[0] <= tref <= ks[-1]) else [])))
        outside = []
    else:
        inside, outside = tr.temperature_grid(rng[0], rng[1], tref, knots)
        spec = sorted(set(float(t) for t in list(knots) + [tref] + list(special)))
        inside = sorted(set(inside) | set(t for t in spec if rng[0] <= t <= rng[1]))
        outside = outside + [t for t in spec
                             if (t < rng[0] or t > rng[1]) and t not in outside]
    nocp = any(hasattr(k, 'ND_Cp_data') and not k.ND_Cp_data for k in cons)
    if inside_floor is not None:
        R.outcomes['inside:not-probed(below %g K)' % inside_floor] += sum(
            1 for T in inside if T < inside_floor)
        inside = [T for T in inside if T >= inside_floor]
    for T in inside:
        for prop in P3:
            R.evals += 1
            if rng is not None and T in rng:
                R.nontrivial += 1
            r = E.ev(getattr(obj, prop), T)
            if not expect_data(prop):
                R.outcomes['inside:no-data'] += 1
                continue
            if r[0] != 'ok':
                R.outcomes['inside:raises'] += 1
                key = 'inside-raises:%s:%s:%s' % (tag, prop, r[1])
                if inkeyfn is not None:
                    key = inkeyfn(key, T, prop, r[1])
                R.violation(key,
                            '%s: %s(%r) inside the range %r raised %s' % (
                                wit.get('what'), prop, T, rng, r[1]), wit)
            elif not E.is_plain_finite(r[1]):
                R.outcomes['inside:not-plain-finite'] += 1
                R.violation('inside-not-plain:%s:%s' % (tag, prop),
                            '%s: %s(%r) = %r (%s) is not a finite plain number'
                            % (wit.get('what'), prop, T, r[1], type(r[1]).__name__), wit)
            else:
                R.outcomes['inside:finite'] += 1
    if rng is not None and outside:
        # get_CpoR accepts arrays (ThermochemRawData, and everything that
        # forwards to it: Incomplete/Group correlations, estimates): one
        # outside element is enough.  Every call gets a fresh array.
        mid = 0.5 * (rng[0] + rng[1])
        for T in outside:
            R.evals += 1
            R.nontrivial += 1
            # (sixth wave) the outside element at EVERY position of every
            # length 2..4 (an interior position of an unsorted array is what
            # an "ends only" test misses), and at every cell of a 2x2 grid
            arrs = []
            for n in (2, 3, 4):
                for pos in range(n):
                    a = [mid] * n
                    a[pos] = T
                    arrs.append(np.array(a))
            for pos in range(4):
                a = [mid] * 4
                a[pos] = T
                arrs.append(np.array(a).reshape(2, 2))
            if float(T).is_integer() and rng[0] <= math.floor(mid) <= rng[1]:
                arrs.append(np.array([int(math.floor(mid)), int(T)], dtype=int))
                arrs.append(np.array([int(T), int(math.floor(mid))], dtype=int))
            label = 'outside:array-raises'
            for arr in arrs:
                r = E.ev(obj.get_CpoR, arr.copy())
                if r[0] == 'exc':
                    continue
                if 'IncompleteDataWarning' in r[2] and nocp:
                    label = 'outside:array-warned(no Cp data)'
                    continue
                # (fourth wave) an answer without any signal outside the range
                # breaks the statement whether or not the object has data for
                # the property: the outside clause carries no has-data
                # qualifier.  Until then such an answer was tallied as
                # 'outside:array-no-data' and let through (never observed on
                # the unchanged tree, where missing data raises).
                R.outcomes['outside:array-unsignalled%s' % (
                    '' if expect_data('get_CpoR') else '(no data expected)')] += 1
                key = 'outside-unsignalled:%s:array' % tag
                if keyfn is not None:
                    key = keyfn(key, T, 'get_CpoR')
                R.violation(key,
                            '%s: get_CpoR(%r) with one temperature outside %r returned %r'
                            % (wit.get('what'), list(arr), rng, r[1]), wit)
                break
            else:
                R.outcomes[label] += 1
    for T in outside:
        for prop in P3:
            R.evals += 1
            R.nontrivial += 1
            r = E.ev(getattr(obj, prop), T)
            if r[0] == 'exc':
                R.outcomes['outside:raises'] += 1
            elif 'IncompleteDataWarning' in r[2] and nocp:
                R.outcomes['outside:warned(no Cp data)'] += 1
            else:
                # (fourth wave) also when the model says the object has no
                # data for prop: see the array branch above
                R.outcomes['outside:unsignalled%s' % (
                    '' if expect_data(prop) else '(no data expected)')] += 1
                side = 'below' if T < rng[0] else 'above'
                near = 'near' if (abs(T - rng[0]) < 1 or abs(T - rng[1]) < 1) else 'far'
                if T == tref:
                    near = 'at-Tref'
                key = 'outside-unsignalled:%s:%s:%s-%s' % (tag, prop, side, near)
                if keyfn is not None:
                    key = keyfn(key, T, prop)
                R.violation(key,
                            '%s: %s(%r) outside the range %r returned %r without '
                            'error or incomplete-data warning%s' % (
                                wit.get('what'), prop, T, rng, r[1],
                                '' if expect_data(prop) else
                                ' (and a constituent has no data for it)'), wit)


def run_K(R, N, spacing, shape, pl, tier, only=None):
    Ts, Cps, c = c05.table(N, spacing, shape)
    Tref = c05.tref_for(Ts, pl)
    if Tref is None:
        return
    for rname, rng in c05.ranges_for(Ts, Tref):
        for cls_name in ('RawData', 'Incomplete', 'Group'):
            desc = dict(N=N, spacing=spacing, shape=shape, placement=pl,
                        range=rname, cls=cls_name)
            if only is not None and only != desc:
                continue
            k = c05.build(cls_name, -12.5, 31.25, Ts, Cps, Tref, rng, list(range(N)))
            eff = rng if rng is not None else (Ts[0], Ts[-1])
            got = k.get_range()
            if cls_name == 'RawData' or rng is not None:
                if got is None or abs(got[0] - eff[0]) > 1e-9 or abs(got[1] - eff[1]) > 1e-9:
                    R.violation('range-reported:' + cls_name,
                                '%r reports range %r, expected %r' % (desc, got, eff),
                                dict(kind='K', desc=desc, what=str(desc)))
            else:
                eff = None if got is None else eff
            judge(R, 'K:' + cls_name, k, got if got is not None else None, Ts, Tref,
                  [k], dict(kind='K', desc=desc, what=str(desc)), lambda p: True)
    # a declared range that does NOT contain the whole table: the constructor
    # may refuse it; if an object comes out, it is judged like any other
    if len(Ts) >= 3 and Ts[0] <= Tref <= Ts[-1]:
        lo_n = max(Ts[0] + 1.0, min(Tref, Ts[1]) - 0.0) if Tref > Ts[0] else Ts[0]
        narrow = (min(Tref, Ts[1]), max(Tref, Ts[1]) + 0.5 * (Ts[2] - Ts[1]))
        for cls_name in ('RawData', 'Incomplete', 'Group'):
            desc = dict(N=N, spacing=spacing, shape=shape, placement=pl,
                        range='narrower-than-table', cls=cls_name)
            if only is not None and only != desc:
                continue
            R.evals += 1
            R.nontrivial += 1
            try:
                k = c05.build(cls_name, -12.5, 31.25, Ts, Cps, Tref, narrow, list(range(N)))
            except Exception as e:      # noqa
                R.outcomes['narrow-range:refused(%s)' % type(e).__name__] += 1
                continue
            R.outcomes['narrow-range:constructed'] += 1
            got = k.get_range()
            judge(R, 'K-narrow:' + cls_name, k, got, [t for t in Ts if got and got[0] <= t <= got[1]],
                  Tref, [k], dict(kind='K', desc=desc, what=str(desc)), lambda p: True,
                  special=Ts)
    R.sample(dict(table=Ts[:4], T_ref=Tref, placement=pl), limit=1)


def run_groups(R, name, only=None):
    lib = E.library(name)
    for g in E.with_data(lib):
        if only is not None and str(g) != only:
            continue
        k = lib[g]['thermochem']
        rng = k.get_range()
        rng = None if rng is None else (float(rng[0]), float(rng[1]))
        judge(R, 'group', k, rng, sorted(float(t) for t in k.ND_Cp_data),
              float(k.T_ref), [k],
              dict(kind='group', lib=name, group=str(g), what='%s[%s]' % (name, g)),
              lambda p, k=k: has_data(k, p))


def run_estimates(R, name, i, n, only=None):
    lib = E.fresh(name)
    for num, (tag, mapping) in enumerate(E.mappings(lib, 'quick')):
        if num % n != i and only is None:
            continue
        if tag == 'unit' and mapping[0][1] not in (1, -1, 0.5):
            continue
        m2 = [[str(g), c] for g, c in mapping]
        if only is not None and m2 != only:
            continue
        wit = dict(kind='est', lib=name, mapping=m2, what='%s estimate %r' % (name, m2))
        r = E.ev(lib.Estimate, dict((str(g), c) for g, c in mapping), 'thermochem')
        if r[0] != 'ok':
            R.violation('estimate-raises:' + r[1], '%s: Estimate raised %s' % (
                wit['what'], r[1]), wit)
            continue
        e = r[1]
        cons = [lib[g]['thermochem'] for g, _ in mapping]
        want = E.common_range(lib, mapping)
        got = e.get_range()
        got = None if got is None else (float(got[0]), float(got[1]))
        R.evals += 1
        distinct = len(set(str(k.get_range()) for k in cons)) > 1
        if distinct:
            R.nontrivial += 1
        if want is not None and want[0] > want[1]:
            R.outcomes['unjudged(disjoint constituent ranges)'] += 1
            continue
        if (got is None) != (want is None) or (
                got is not None and (abs(got[0] - want[0]) > 1e-9 or
                                     abs(got[1] - want[1]) > 1e-9)):
            R.outcomes['range:wrong'] += 1
            R.violation('estimate-range', '%s reports range %r, intersection of '
                        'constituent ranges is %r' % (wit['what'], got, want), wit)
            continue
        R.outcomes['range:intersection'] += 1
        knots = sorted(set(float(t) for k in cons for t in k.ND_Cp_data))
        tref = float(cons[0].T_ref)
        special = [float(k.T_ref) for k in cons]
        for k in cons:
            kr = k.get_range()
            if kr is not None:
                special += [float(kr[0]), float(kr[1])]
        judge(R, 'estimate', e, want, knots, tref, cons, wit,
              lambda p, cons=cons: all(has_data(k, p) for k in cons),
              special=special)
        if distinct:
            R.sample(dict(library=name, mapping=m2, range=want), limit=1)


# ------------------------------------------------------------------ Z family

F1 = 'F1:noCp-value-at-Tref-outside-declared-range'
F2 = 'F2:refused-set_range-installs-the-refused-range-and-drops-the-correlation'


def run_Z(R, cls_name, only=None):
    """Correlations without a heat-capacity table (control: a one-point
    table) x placement of the declared range relative to T_ref."""
    import pgradd.ThermoChem as tc
    cls = tc.ThermochemIncomplete if cls_name == 'Incomplete' else tc.ThermochemGroup
    for dname, H, S in W3.Z_DATA:
        for Tref in W3.Z_TREFS:
            for cp in W3.Z_CP:
                for rname, rng in W3.z_ranges(Tref):
                    desc = dict(cls=cls_name, data=dname, T_ref=Tref, cp=cp, range=rname)
                    if only is not None and only != desc:
                        continue
                    wit = dict(kind='Z', desc=desc, what='%s %r range %r' % (cls_name, desc, rng))
                    table = W3.z_table(cp, Tref, rng)
                    tin = W3.z_tref_inside(Tref, rng)
                    R.evals += 1
                    if not tin or (rng is not None and Tref in rng):
                        R.nontrivial += 1
                    try:
                        k = cls(H, S, table, Tref, rng)
                    except Exception as e:      # noqa
                        R.outcomes['Z:refused(%s)' % type(e).__name__] += 1
                        if tin:
                            R.violation('construct-refused:Z:%s' % cls_name,
                                        '%s: the range contains T_ref and the table, yet '
                                        'the constructor raised %s: %s' % (
                                            wit['what'], type(e).__name__, e), wit)
                        continue
                    R.outcomes['Z:constructed(T_ref %s range)' % (
                        'inside' if tin else 'OUTSIDE')] += 1
                    got = k.get_range()
                    got = None if got is None else (float(got[0]), float(got[1]))
                    if got != rng:
                        R.violation('range-reported:Z:%s' % cls_name,
                                    '%s reports range %r' % (wit['what'], got), wit)
                        continue

                    def keyfn(key, T, prop, tin=tin, cp=cp, Tref=Tref):
                        # the one shape found to break the statement on the
                        # unchanged tree gets a key of its own
                        if not tin and cp == 'none' and T == Tref and prop != 'get_CpoR':
                            return F1
                        return key
                    data = dict(get_CpoR=bool(table), get_HoRT=H is not None,
                                get_SoR=S is not None)
                    judge(R, 'Z:' + cls_name, k, rng, sorted(table), Tref, [k], wit,
                          lambda p, data=data: data[p], keyfn=keyfn)


# ------------------------------------------------------------- HIST family

class _Stand(object):
    """What the model says a group holds (for judge's no-Cp / has-data tests)."""

    def __init__(self, st):
        self.ND_Cp_data = dict(st['cp'])
        self.ND_H_ref = st['H']
        self.ND_S_ref = st['S']


def _hist_group(desc):
    import pgradd.ThermoChem as tc
    return tc.ThermochemGroup(desc.get('H'), desc.get('S'), dict(desc['cp']),
                              W3.H_TREF, desc['rng'])


def run_history(R, mapping, pre, seq, wit):
    """[Estimate(m)] (Update(piece) Estimate(m))*; every requested estimate
    must report the model's intersection; the last one is put on the grid."""
    from pgradd.GroupAdd.Library import GroupLibrary
    lib = GroupLibrary(None, dict((g, {'thermochem': _hist_group(W3.BASE[g])})
                                  for g in W3.GROUPS))
    applied = dict((g, []) for g in W3.GROUPS)
    steps = ([None] if pre else []) + list(seq)
    e = None
    for n, step in enumerate(steps):
        if step is not None:
            g, p = step
            sup = GroupLibrary(None, {g: {'thermochem': _hist_group(W3.piece(g, p))}})
            r = E.ev(lib.Update, sup)
            if r[0] != 'ok':
                R.violation('hist:update-raises:' + r[1],
                            '%s: Update(%s/%s) raised %s' % (wit['what'], g, p, r[1]), wit)
                return
            applied[g].append(p)
        R.evals += 1
        r = E.ev(lib.Estimate, dict(mapping), 'thermochem')
        if r[0] != 'ok':
            R.violation('hist:estimate-raises:' + r[1], '%s: Estimate (request %d) '
                        'raised %s' % (wit['what'], n + 1, r[1]), wit)
            return
        e = r[1]
        states = [W3.model_group(g, applied[g]) for g, _ in mapping]
        want = W3.model_range(states)
        got = e.get_range()
        got = None if got is None else (float(got[0]), float(got[1]))
        if (got is None) != (want is None) or (
                got is not None and (abs(got[0] - want[0]) > 1e-9 or
                                     abs(got[1] - want[1]) > 1e-9)):
            R.outcomes['hist:range-wrong'] += 1
            R.violation('hist:estimate-range', '%s: the estimate requested after '
                        '%d update(s) reports range %r; its groups now have %r, '
                        'intersection %r' % (wit['what'], sum(1 for s in steps[:n + 1] if s),
                                             got, [s['rng'] for s in states], want), wit)
            return
        R.outcomes['hist:range-intersection'] += 1
    if seq:
        R.nontrivial += 1
    knots = sorted(set(t for s in states for t in s['cp']))
    special = [W3.H_TREF] + [t for s in states if s['rng'] for t in s['rng']]
    judge(R, 'hist', e, want, knots, W3.H_TREF, [_Stand(s) for s in states], wit,
          lambda p, states=states: all(
              (bool(s['cp']) if p == 'get_CpoR' else
               s['H'] is not None if p == 'get_HoRT' else s['S'] is not None)
              for s in states), special=special)


# --------------------------------------------------------- SETRANGE family
# The range of a correlation can also be changed after construction
# (ThermochemBase.set_range, public).  Every sequence of <= 2 set_range calls
# over 6 placements of the new range relative to the old one, T_ref and the
# table, on every base group of the HIST family as ThermochemIncomplete,
# ThermochemGroup and (where it has a table) ThermochemRawData.  After each
# accepted call the object must report the new range and is judged on the grid
# against it.  (Fifth wave) two further placements that an object with a table
# refuses (8 in all); a call that raises no longer ends the history: the object
# is judged against whatever range it reports afterwards and the next call is
# made (until then a refused call ended the history without a verdict).

def setrange_candidates(g):
    b = W3.BASE[g]
    lo, hi = b['rng'] if b['rng'] is not None else (250.0, 1000.0)
    top = max(list(b['cp']) + [W3.H_TREF])
    ks = sorted(b['cp'])
    out = [('cut-above-table', (lo, top + 50.0)),
           ('cut-below', (W3.H_TREF - 1.0, hi)),
           ('widen', (lo - 100.0, hi + 500.0)),
           ('none', None),
           ('point-at-Tref', (W3.H_TREF, W3.H_TREF))]
    if len(ks) >= 2:
        out.append(('cut-into-table', (lo, 0.5 * (ks[-1] + ks[-2]))))
    else:
        out.append(('cut-at-Tref+1', (lo, W3.H_TREF + 1.0)))
    # (fifth wave) two further placements that an object with a table refuses
    out += W5.refusing_placements(lo, hi, ks, W3.H_TREF)
    return out


def setrange_sequences(g):
    c = setrange_candidates(g)
    for a in c:
        yield [a]
    for a in c:
        for b_ in c:
            yield [a, b_]


def setrange_histories(g):
    """(pre, seq).  pre=False: the third-wave histories, unchanged.  pre=True
    (fourth wave): the object is ALSO evaluated - and judged - on the grid
    before the first call, and every step of the history (the one before the
    first call included) probes the union of the grids of all ranges the
    history goes through, so that every temperature asked for after a
    set_range() was asked for on the same object before it as well, on
    whichever side of the then-current range it fell."""
    for seq in setrange_sequences(g):
        yield False, seq
    for seq in setrange_sequences(g):
        yield True, seq


def run_setrange(R, cls_name, g, only=None):
    import pgradd.ThermoChem as tc
    from pgradd.ThermoChem.raw_data import ThermochemRawData
    b = W3.BASE[g]
    knots = sorted(b['cp'])
    if cls_name == 'RawData' and not knots:
        return
    stand = _Stand(dict(cp=b['cp'], H=b['H'], S=b['S']))

    def expect(p):
        return bool(b['cp']) if p == 'get_CpoR' else True
    for pre, seq in setrange_histories(g):
        names = [n for n, _ in seq]
        if only is not None and only != (pre, names):
            continue
        wit = dict(kind='setrange', cls=cls_name, group=g, seq=names, pre=pre,
                   what='%s of base group %s %safter set_range %s' % (
                       cls_name, g,
                       '(evaluated on the grid before the first call) ' if pre else '',
                       ' then '.join('%s=%r' % x for x in seq)))
        if cls_name == 'RawData':
            k = ThermochemRawData(b['H'], b['S'], knots, [b['cp'][t] for t in knots],
                                  W3.H_TREF, b['rng'])
        else:
            cls = tc.ThermochemIncomplete if cls_name == 'Incomplete' else tc.ThermochemGroup
            k = cls(b['H'], b['S'], dict(b['cp']), W3.H_TREF, b['rng'])
        union = []
        if pre:
            union = W4.history_temperatures([b['rng']] + [r for _, r in seq],
                                            knots, W3.H_TREF)
            R.evals += 1
            R.nontrivial += 1
            got = k.get_range()
            got = None if got is None else (float(got[0]), float(got[1]))
            if got != b['rng']:
                R.violation('setrange:range-reported:%s' % cls_name,
                            '%s reports range %r before any call' % (wit['what'], got), wit)
                continue
            R.outcomes['setrange:evaluated-before-first-call'] += 1
            if got is None:
                # no range: judge() probes T_ref only (assumption 3); the other
                # temperatures of the history are asked for here, unjudged, so
                # that the object has seen them before the first call
                for T in union:
                    for prop in P3:
                        R.evals += 1
                        E.ev(getattr(k, prop), T)
            judge(R, 'setrange:' + cls_name, k, got, knots, W3.H_TREF, [stand], wit,
                  expect, special=union)
        for n, (name, rng) in enumerate(seq):
            R.evals += 1
            r = E.ev(k.set_range, rng)
            if r[0] != 'ok':
                R.outcomes['setrange:refused(%s)' % r[1].split(':')[0]] += 1
                # (fifth wave) a refused call no longer ends the history: the
                # object is judged on the grid against WHATEVER range it
                # reports now (the statement does not say which), and the
                # history goes on with the next call
                R.nontrivial += 1
                got = k.get_range()
                got = None if got is None else (float(got[0]), float(got[1]))
                took = got == rng
                R.outcomes['setrange:after-refusal:reports-%s' % (
                    'the-refused-range' if took else 'another-range')] += 1
                ends = [t for r_ in (b['rng'], rng, got) if r_ for t in r_]
                ends += [t for _, r_ in seq if r_ for t in r_]

                def inkeyfn(key, T, prop, exc, took=took):
                    # the one shape found to break the statement on the
                    # unchanged tree gets a key of its own
                    if took and exc == 'AttributeError':
                        return F2
                    return key
                judge(R, 'setrange-refused:' + cls_name, k, got, knots, W3.H_TREF,
                      [stand], wit, expect, special=[W3.H_TREF] + ends + union,
                      inkeyfn=inkeyfn)
                continue
            R.nontrivial += 1
            got = k.get_range()
            got = None if got is None else (float(got[0]), float(got[1]))
            if got != rng:
                R.violation('setrange:range-reported:%s' % cls_name,
                            '%s reports range %r' % (wit['what'], got), wit)
                break
            R.outcomes['setrange:accepted'] += 1
            special = [W3.H_TREF] + [t for r_ in (b['rng'], rng) if r_ for t in r_]
            judge(R, 'setrange:' + cls_name, k, rng, knots, W3.H_TREF, [stand], wit,
                  expect, special=special + union)


# ------------------------------------------------------------- MIX family
# (fourth wave) Estimates over a partner group and a group that LACKS the data
# for some property, whose declared range is placed in every way relative to
# the partner's (alphabets and the dictionary model in mc/domains/w4_c06.py).
# The expected range, has-data and no-heat-capacity facts come from the
# descriptions, not from the library.

def _mix_corr(d):
    import pgradd.ThermoChem as tc
    return tc.ThermochemGroup(d['H'], d['S'], dict(d['cp']), W4.T_REF, d['rng'])


def mix_cases(partner, lack, tier):
    for c in W4.mix_cases(partner, lack):
        yield c
    if tier == 'thorough':
        for c in W4.mix_triples(partner, lack):
            yield c


def run_mix(R, partner, lack, tier, only=None):
    from pgradd.GroupAdd.Library import GroupLibrary
    for case in mix_cases(partner, lack, tier):
        if only is not None and only != case:
            continue
        groups = W4.mix_groups(case)
        descs = [d for _, d, _ in groups]
        wit = dict(kind='mix', case=case,
                   what='constructor-built library, estimate %r' % (
                       [(n, c, 'H=%r S=%r table=%r range=%r' % (
                           d['H'], d['S'], sorted(d['cp']), d['rng']))
                        for n, d, c in groups],))
        R.evals += 1
        want = W4.model_range(descs)
        if len(set(str(d['rng']) for d in descs)) > 1:
            R.nontrivial += 1
        r = E.ev(lambda: GroupLibrary(None, dict(
            (n, {'thermochem': _mix_corr(d)}) for n, d, _ in groups)))
        if r[0] != 'ok':
            R.violation('mix:library-refused:' + r[1],
                        '%s: building the library raised %s' % (wit['what'], r[1]), wit)
            continue
        lib = r[1]
        r = E.ev(lib.Estimate, dict((n, c) for n, _, c in groups), 'thermochem')
        if want is not None and want[0] > want[1]:
            # (thorough triples only; fifth wave) until then not judged: the
            # intersection is empty, see judge_empty
            judge_empty(R, 'mix', r, descs, wit)
            continue
        if r[0] != 'ok':
            R.violation('mix:estimate-raises:' + r[1],
                        '%s: Estimate raised %s' % (wit['what'], r[1]), wit)
            continue
        e = r[1]
        got = e.get_range()
        got = None if got is None else (float(got[0]), float(got[1]))
        if got != want:
            R.outcomes['mix:range-wrong'] += 1
            R.violation('mix:estimate-range', '%s reports range %r, intersection of '
                        'the declared ranges is %r' % (wit['what'], got, want), wit)
            continue
        R.outcomes['mix:range-intersection'] += 1
        knots = sorted(set(t for d in descs for t in d['cp']))
        special = [W4.T_REF] + [t for d in descs if d['rng'] for t in d['rng']]
        judge(R, 'mix', e, want, knots, W4.T_REF, [_Stand(d) for d in descs], wit,
              lambda p, descs=descs: W4.model_has(descs, p), special=special)
    R.sample(dict(partner=partner, lacking=lack,
                  cases=sum(1 for _ in mix_cases(partner, lack, tier))), limit=1)


# ------------------------------------------------------------- RNG family
# (fifth wave) Estimates on a constructor-built library over groups whose
# declared ranges are all intervals over the endpoint alphabet of
# mc/domains/w5_c06.py - "0 K" in every presentation of zero included - in
# every ordered pair (ordered triples over a reduced alphabet).  This brings
# DISJOINT constituent ranges into the alphabet.  The intersection of
# disjoint ranges is empty, so no temperature is valid: the estimate must be
# refused (Estimate raises) or report a range that contains no temperature
# (lower bound > upper bound) and then signal at every temperature; a
# reported range that contains a temperature, or no range limits at all, is
# not the intersection.

def _rng_corr(d):
    import pgradd.ThermoChem as tc
    return tc.ThermochemGroup(d['H'], d['S'], dict(d['cp']), d['T_ref'], d['rng'])


def judge_empty(R, tag, r, descs, wit):
    """r = E.ev(lib.Estimate, ...) for constituents whose ranges do not
    intersect."""
    if r[0] != 'ok':
        R.outcomes['%s:disjoint:refused(%s)' % (tag, r[1])] += 1
        return
    e = r[1]
    got = e.get_range()
    rs = [d['rng'] for d in descs if d['rng'] is not None]
    if got is None or not (got[0] > got[1]):
        R.outcomes['%s:disjoint:nonempty-range-reported' % tag] += 1
        R.violation('%s:disjoint-nonempty-range' % tag,
                    '%s: the constituent ranges %r do not intersect, yet the '
                    'estimate reports %s' % (
                        wit['what'], rs,
                        'no range limits' if got is None else
                        'the range %r, which contains temperatures' % (tuple(got),)), wit)
        return
    R.outcomes['%s:disjoint:empty-range-reported' % tag] += 1
    # every temperature is outside an empty range
    nocp = any(not d['cp'] for d in descs)
    ts = sorted(set(float(t) for d in descs for t in
                    list(d['cp']) + [d.get('T_ref', W3.H_TREF)] + list(d['rng'] or ())))
    for T in ts:
        for prop in P3:
            R.evals += 1
            R.nontrivial += 1
            q = E.ev(getattr(e, prop), T)
            if q[0] == 'exc':
                R.outcomes['outside:raises'] += 1
            elif 'IncompleteDataWarning' in q[2] and nocp:
                R.outcomes['outside:warned(no Cp data)'] += 1
            else:
                R.outcomes['outside:unsignalled'] += 1
                R.violation('%s:disjoint-unsignalled:%s' % (tag, prop),
                            '%s: reports the empty range %r, yet %s(%r) returned %r '
                            'without error or incomplete-data warning' % (
                                wit['what'], tuple(got), prop, T, q[1]), wit)


def run_rng(R, arity, first, tier, only=None):
    from pgradd.GroupAdd.Library import GroupLibrary
    n = 0
    for case in W5.rng_cases(arity, first, tier):
        if only is not None and only != case:
            continue
        n += 1
        groups = W5.rng_groups(case)
        descs = [d for _, d, _ in groups]
        wit = dict(kind='rng', case=case,
                   what='constructor-built library, estimate %r' % (
                       [(g, c, 'range=%r T_ref=%r table=%r' % (
                           d['rng'], d['T_ref'], sorted(d['cp'])))
                        for g, d, c in groups],))
        R.evals += 1
        want = W5.model_range(descs)
        rel = W5.relation(descs)
        if rel != 'equal':
            R.nontrivial += 1
        r = E.ev(lambda: GroupLibrary(None, dict(
            (g, {'thermochem': _rng_corr(d)}) for g, d, _ in groups)))
        if r[0] != 'ok':
            R.violation('rng:library-refused:' + r[1],
                        '%s: building the library raised %s' % (wit['what'], r[1]), wit)
            continue
        lib = r[1]
        r = E.ev(lib.Estimate, dict((g, c) for g, _, c in groups), 'thermochem')
        if rel == 'disjoint':
            judge_empty(R, 'rng', r, descs, wit)
            continue
        if r[0] != 'ok':
            R.violation('rng:estimate-raises:' + r[1],
                        '%s: Estimate raised %s although the ranges intersect in %r'
                        % (wit['what'], r[1], want), wit)
            continue
        e = r[1]
        got = e.get_range()
        got = None if got is None else (float(got[0]), float(got[1]))
        want = (float(want[0]), float(want[1]))
        if got != want:
            R.outcomes['rng:range-wrong'] += 1
            R.violation('rng:estimate-range', '%s reports range %r, intersection of '
                        'the declared ranges is %r' % (wit['what'], got, want), wit)
            continue
        R.outcomes['rng:range-intersection(%s)' % rel] += 1
        knots = sorted(set(t for d in descs for t in d['cp']))
        special = [t for d in descs for t in [d['T_ref']] + [float(x) for x in d['rng']]]
        judge(R, 'rng', e, want, knots, descs[0]['T_ref'], [_Stand(d) for d in descs],
              wit, lambda p: True, special=special, inside_floor=W5.FLOOR)
    R.sample(dict(family='RNG', arity=arity, first=first, cases=n), limit=1)


def run_hist(R, mi, tier, only=None):
    mapping = W3.MAPPINGS[mi]
    for pre, seq in W3.histories(mapping, W3.MAXLEN[tier]):
        hist = dict(pre=pre, seq=[list(x) for x in seq])
        if only is not None and only != hist:
            continue
        wit = dict(kind='hist', mapping=[list(x) for x in mapping], history=hist,
                   what='library %s, history %s%s for mapping %r' % (
                       '+'.join(W3.GROUPS), 'Estimate; ' if pre else '',
                       ' '.join('Update(%s:%s); Estimate;' % tuple(x) for x in seq),
                       mapping))
        run_history(R, mapping, pre, seq, wit)
    R.sample(dict(mapping=mapping, histories=sum(1 for _ in W3.histories(
        mapping, W3.MAXLEN[tier]))), limit=1)


def shards(tier, seed):
    out = []
    for s in c05.shards(tier, seed):
        if s[0] == 'K':
            out.append(s)
    for name in LIBS:
        out.append(('groups', name))
        for i in range(3):
            out.append(('est', name, i, 3))
    for cls_name in W3.Z_CLASSES:
        out.append(('Z', cls_name))
    for mi in range(len(W3.MAPPINGS)):
        out.append(('hist', mi))
    for c in ('Incomplete', 'Group', 'RawData'):
        for g in W3.GROUPS:
            out.append(('setrange', c, g))
    for partner in W4.PARTNER_NAMES[tier]:
        for lack in W4.LACK_NAMES:
            out.append(('mix', partner, lack))
    for arity in (2, 3):
        for first in W5.rng_firsts(arity, tier):
            out.append(('rng', arity, first))
    return out


def run_shard(shard, tier):
    R = Result()
    if shard[0] == 'K':
        run_K(R, shard[1], shard[2], shard[3], shard[4], tier)
    elif shard[0] == 'groups':
        run_groups(R, shard[1])
    elif shard[0] == 'Z':
        run_Z(R, shard[1])
    elif shard[0] == 'hist':
        run_hist(R, shard[1], tier)
    elif shard[0] == 'setrange':
        run_setrange(R, shard[1], shard[2])
    elif shard[0] == 'mix':
        run_mix(R, shard[1], shard[2], tier)
    elif shard[0] == 'rng':
        run_rng(R, shard[1], shard[2], tier)
    else:
        run_estimates(R, shard[1], shard[2], shard[3])
    return R


def replay(w):
    R = Result()
    if w['kind'] == 'K':
        d = w['desc']
        run_K(R, d['N'], d['spacing'], d['shape'], d['placement'], 'thorough', only=d)
    elif w['kind'] == 'group':
        run_groups(R, w['lib'], only=w['group'])
    elif w['kind'] == 'Z':
        run_Z(R, w['desc']['cls'], only=w['desc'])
    elif w['kind'] == 'setrange':
        run_setrange(R, w['cls'], w['group'], only=(bool(w.get('pre', False)), w['seq']))
    elif w['kind'] == 'mix':
        c = w['case']
        run_mix(R, c['partner'], c['lack'], 'thorough', only=c)
    elif w['kind'] == 'rng':
        c = w['case']
        run_rng(R, len(c['intervals']), c['intervals'][0], 'thorough', only=c)
    elif w['kind'] == 'hist':
        m = [tuple(x) for x in w['mapping']]
        run_hist(R, W3.MAPPINGS.index(m), 'thorough', only=w['history'])
    else:
        run_estimates(R, w['lib'], 0, 1, only=w['mapping'])
    return dict(violates=bool(R.violations),
                detail='\n'.join(v['msg'] for v in R.violations[:5]) or 'holds')


BOUND = {t: 'family K of C05 (%s tier) x 3 classes; every group of 9 libraries '
            '+ synthetic; all unit, class-pair and class-triple mappings; '
            'inside grid (ends, middle, T_ref, knots, midpoints) and outside '
            'grid (one ulp, 1e-6 relative, 100 K beyond each end; 0 K; -10 K); '
            'plus every constituent\'s T_ref, table points and range ends on '
            'whichever side of the range they fall; Cp for temperature arrays '
            '(float and integer dtype, 3 positions of the outside element) on '
            'every object with a range; family Z: 2 classes x 3 data shapes x 2 '
            'T_ref x (no table, one-point table) x 9 placements of the declared '
            'range relative to T_ref = 216 correlations; family HIST: 25 '
            'mappings over a 5-group constructor-built library x all ordered '
            'selections of <= %d of the 2-3 Update() pieces of each group x '
            'with/without a prior Estimate = %d histories; family SETRANGE: '
            'all sequences of <= 2 set_range() calls over 8 placements x 5 base '
            'groups x 3 classes, each without and with an evaluation on the '
            'grid before the first call (then every step probes the union of '
            'the grids of all ranges of the history), refused calls judged and '
            'continued = %d histories; family '
            'MIX: %d partner groups x 6 lacking-data shapes x 5 (with table) / '
            '8 (without) placements of the lacking group\'s range x 4 count '
            'pairs x 2 orders%s = %d estimates; family RNG: all ordered pairs '
            '(with repetition) of the %d intervals over {Z, 100, 300, 400, '
            '1000} K, Z in %d presentations of 0 K, and all ordered triples of '
            'the %d intervals of a reduced alphabet = %d estimates, disjoint '
            'ranges included'
            % (t, W3.MAXLEN[t], sum(sum(1 for _ in W3.histories(m, W3.MAXLEN[t]))
                                    for m in W3.MAPPINGS),
               sum(sum(1 for _ in setrange_histories(g))
                   for c in ('Incomplete', 'Group', 'RawData') for g in W3.GROUPS
                   if c != 'RawData' or W3.BASE[g]['cp']),
               len(W4.PARTNER_NAMES[t]),
               ' + triples with two lacking groups under all ordered pairs of '
               'distinct placements' if t == 'thorough' else '',
               sum(sum(1 for _ in mix_cases(p_, l_, t))
                   for p_ in W4.PARTNER_NAMES[t] for l_ in W4.LACK_NAMES),
               len(W5.intervals(2, t)), len(W5.ZEROS[t]), len(W5.intervals(3, t)),
               sum(sum(1 for _ in W5.rng_cases(a_, f_, t))
                   for a_ in (2, 3) for f_ in W5.rng_firsts(a_, t)))
         for t in ('quick', 'thorough')}
