"""C02 - descriptors equal the scheme file's declared decomposition.

(a) every shipped scheme file x its molecule vocabulary (M(n) gas phase,
    adsorbates, curated, vocabulary-external);
(b) synthetic schemes: all subsets of a pool of centre patterns x remap variant
    x correction-descriptor variant, written to disk and loaded through
    GroupAdditivityScheme.Load.
(c) third wave (domains/w3_c02.py), same oracle, same route through Load:
    N  centre-NAME sharing: every subset of the pool with the carbon-centred
       patterns renamed to one shared centre name (peripheral names distinct /
       shared too / centre name 'none'), or with its first entry listed twice,
       x remap variant {none, 1:1, one-to-two}: overlapping patterns must fail
       whatever they are called, non-overlapping ones may share a name;
    R  remap shapes x source kinds: 7 coefficient-list shapes (unit,
       fractional, two targets 2,1 / 1,2, three targets, one target twice,
       zero and negative) x source {group, 2-atom descriptor, ring descriptor}
       x the 4 descriptor variants x every pool subset holding the sp3-C and H
       patterns;
    E  shipped schemes on all substituted ethenes R1R2C=CR3R4 over
       {H, Me, Et, tBu}, with none / E / Z stereo marks where the bond can
       carry them (97 molecules).
(d) fourth wave (domains/w4_c02.py), same oracle:
    Z  shipped schemes on six-membered rings written position by position:
       ring atoms over {C, N}^6 x both Kekule phases + aromatic spelling
       (192), the all-carbon ring x ring bonds over {single, double}^6 (64),
       one methyl on every carbon position of every {C, N}^6 Kekule ring
       (384); thorough adds ring atoms over {C, N, O}^6 x the 18 ring-bond
       words without adjacent double bonds (those RDKit accepts).  Every
       constitution therefore occurs with each ring atom written first and in
       both directions, i.e. with the hetero atom / the odd bond at every
       position of the ring the Benson perception step walks over.
(e) fifth wave (domains/w5_c02.py), same oracle:
    K  synthetic schemes whose declaration carries a COUNT, operator over
       {bare digit, =, >, <, >=, <=} x digit 0..4 x counted quantity {C
       neighbours, H neighbours, size of a ring the atom is in, number of
       rings, radical electrons}, (i) on a correction descriptor, plain and
       negated, as a single atom and - neighbour counts - as the asymmetric
       C{count}-O-C pattern of Benson's ether correction; (ii) on the centre
       patterns: carbon classified by C{count(op, n)} / C{! count(op', n)},
       which partition the carbons when op' = op and otherwise overlap or
       leave a gap exactly at the limit (failure clause).  Molecules: carbons
       with 0..4 C and 0..4 H neighbours, 1-3 radical electrons, 3- and
       4-rings, a carbon in two rings, all ten ethers over {Me, Et, iPr, tBu}
       - so every declared limit 0..4 has atoms below it, on it and above it.
    L  shipped schemes on the substitution ladder R-Y-R', R over
       {H, Me, Et, iPr, tBu}, Y over {O, OO, C(=O), CH2, C(=O)O} (84
       molecules).
Oracle: models/schemeref.py (independent scheme interpreter over ringref).
"""
import os
import tempfile

from ..runner import Result
from ..models import schemeref as SR
from ..domains import schemes as SD
from ..domains import libs
from ..domains import w3_c02 as W3
from ..domains import w4_c02 as W4
from ..domains import w5_c02 as W5

LEVEL = 'exploration'
BOUND = {
    'quick': 'shipped: the 6 distinct scheme files on M(3) C/O with radicals + '
             'Pt/Ru adsorbates + curated + outside-vocabulary molecules, and '
             'all 9 library names on the curated list; synthetic: all non-empty '
             'subsets of a 5-pattern pool x 5 remap variants x 4 descriptor '
             'variants on M(2)+8; third wave: 31 subsets x 4 name-sharing '
             'variants x 3 remap variants (372 schemes) and 8 subsets (those '
             'with the sp3-C and H patterns) x 3 remap sources x 7 remap '
             'shapes x 4 descriptor variants (672 schemes) on M(2)+8; the 6 '
             'distinct scheme files on the 97 substituted ethenes over '
             '{H, Me, Et, tBu} x {no, E, Z} stereo marks; fourth wave: the 6 '
             'distinct scheme files on 638 six-ring spellings = ring atoms '
             '{C, N}^6 x 2 Kekule phases + aromatic spelling (192), all-carbon '
             'ring x ring bonds {single, double}^6 (64), one methyl on each '
             'carbon position of each {C, N}^6 Kekule ring (384), no '
             'de-duplication of spellings; fifth wave: 870 synthetic schemes '
             'with a count declaration = {descriptor on one atom: 5 counted '
             'quantities; descriptor C{count}-O-C: 2 neighbour counts} x '
             '{plain, negated} x 6 operators x digits 0..4 (420) + centre '
             'pair C{count op n} / C{! count op\' n}: 2 neighbour counts x 36 '
             'operator pairs x 5 digits + 3 other counts x 6 x 5 (450), each '
             'on 36 molecules; the 6 distinct scheme files on the 84 '
             'molecules R-Y-R\' of the substitution ladder',
    'thorough': 'shipped: M(4) C/O with radicals + closed-shell M(5); '
                'synthetic: all 255 subsets of the 8-pattern pool x 5 x 4 on '
                'M(3)+8; third wave: 255 subsets x 4 name-sharing variants '
                'x 3 remap variants (3060 schemes) and 64 subsets x 3 x 7 x 4 '
                '(5376 schemes) on M(3)+8; the 97 substituted ethenes as in '
                'quick; fourth wave: the six-ring spellings of quick plus ring '
                'atoms {C, N, O}^6 x the 18 ring-bond words over {single, '
                'double}^6 without adjacent double bonds, kept when RDKit '
                'accepts the valences (4591 spellings in all); fifth wave: '
                'count declarations as in quick plus O-neighbour and '
                'heavy-neighbour counts and all 36 operator pairs for every '
                'counted quantity (1920 schemes) on the same 36 molecules; '
                'the substitution ladder as in quick'}
RULE = ('every (scheme, molecule) pair is decomposed by the implementation and '
        'by the reference interpreter; compared: success vs PatternMatchError, '
        'the total dictionary (1e-9) and - through a harness-side wrapper of '
        'the group-assignment step - the centre and peripheral name of every '
        'atom.  Non-trivial = the reference decomposition succeeds with at '
        'least two different entries, or fails (failure clause)')
ASSUMPTIONS = ['input normalisation (AddHs, Kekulize, weak bonds, sequential '
               'Benson perception of all-carbon six-rings) is mirrored with the '
               'same RDKit calls',
               'molecules with fused benzenoid rings are compared for '
               'success/failure only (recorded finding K2, see C03)',
               'which atom a PatternMatchError names is not compared',
               'a correction descriptor named like a group: not judged']
MANIFEST = dict(
    technique='bounded-exhaustive enumeration of molecules x scheme programs '
              '(shipped and synthetic) vs an independent scheme interpreter',
    text='Each scheme file is read as a program by an independent interpreter '
         '(own RING reader and matcher, one-centre-per-atom classification, '
         'group naming, distinct-atom-set descriptor counting, linear remaps) '
         'and compared with GetDescriptors on every molecule of an '
         'exhaustively enumerated vocabulary, including per-atom assignments '
         'and the failure clause; synthetic schemes cover overlapping / '
         'missing centre patterns, remap shapes and descriptor shapes, '
         'centre patterns that share a centre name (overlapping or not, '
         'including a scheme entry listed twice), and seven remap shapes '
         '(one / two / three targets, coefficients 0, -1, 0.5, 1, 2, 3, a '
         'target named twice) on a group and on correction descriptors; the shipped '
         'schemes are also run on all substituted ethenes over '
         '{H, Me, Et, tBu} with and without E/Z marks, and on six-membered '
         'rings enumerated as words over the ring positions (atoms {C, N}, '
         'bonds {single, double}, one methyl at each position), each word '
         'written from its first position so that every ring atom of every '
         'constitution is the first written one in some spelling.  Count '
         'declarations ({connected to <3 C}, {in ring of size >=4}, {in 1 '
         'ring}, {has =1 radical electrons}, plain or negated) are '
         'enumerated over all six operator spellings x digits 0..4 on '
         'correction descriptors and on pairs of centre patterns, on '
         'molecules that hold atoms below, on and above every limit; the '
         'shipped schemes are run on the ladder R-Y-R\' over {H, Me, Et, '
         'iPr, tBu} x {ether, peroxide, ketone, alkane, ester}.',
    note='Molecules larger than the enumeration bound only through the '
         'curated list, the substituted-ethene, six-ring and '
         'substitution-ladder families.',
    ref='5/C02')

_CAPTURE = {'mol': None, 'installed': None}


def install_capture():
    if _CAPTURE['installed'] is not None:
        return _CAPTURE['installed']
    from pgradd.GroupAdd.Scheme import GroupAdditivityScheme as GAS
    if not hasattr(GAS, '_AssignGroup'):
        _CAPTURE['installed'] = False
        return False
    orig = GAS._AssignGroup

    def wrapped(self, mol, *a, **k):
        _CAPTURE['mol'] = mol
        return orig(self, mol, *a, **k)
    GAS._AssignGroup = wrapped
    _CAPTURE['installed'] = True
    return True


def worker_init():
    install_capture()


def impl_decompose(scheme, x):
    """-> ('ok', totals, per_atom|None) | ('PME',) | ('EXC', name)"""
    from pgradd.Error import PatternMatchError
    _CAPTURE['mol'] = None
    try:
        d = scheme.GetDescriptors(x)
    except PatternMatchError:
        return ('PME',)
    except Exception as e:      # noqa
        return ('EXC', type(e).__name__ + ':' + str(e)[:80])
    tot = {str(k): float(v) for k, v in d.items()}
    per_atom = None
    m = _CAPTURE['mol']
    if m is not None:
        try:
            per_atom = [(a.GetProp('Group_Center_Name'), a.GetProp('Group_Periph_Name'))
                        for a in m.GetAtoms()]
        except Exception:      # noqa
            per_atom = None
    return ('ok', tot, per_atom)


def ref_decompose(S, smiles):
    try:
        tot, per_atom, fused, clash = SR.decompose(S, smiles)
    except SR.RefPatternMatchError as e:
        return ('PME', str(e))
    return ('ok', {k: float(v) for k, v in tot.items()},
            [(c, p) for c, p, _ in per_atom], fused, clash)


def same_totals(a, b):
    keys = set(a) | set(b)
    return all(abs(a.get(k, 0.0) - b.get(k, 0.0)) <= 1e-9 for k in keys) and \
        set(k for k, v in a.items()) == set(k for k, v in b.items())


def compare(R, tag, impl, S, smiles, wit):
    got = impl_decompose(impl, smiles)
    exp = ref_decompose(S, smiles)
    R.evals += 1
    if exp[0] == 'PME' or len(exp[1]) >= 2:
        R.nontrivial += 1
    key = None
    if exp[0] == 'PME':
        R.outcomes[tag.split('/')[0] + (':fails-as-declared' if got[0] == 'PME' else ':failure-clause-broken')] += 1
        if got[0] != 'PME':
            key = 'no-PatternMatchError'
            msg = ('%s: the scheme does not classify every atom exactly once '
                   '(%s) but the call gave %r' % (smiles, exp[1], got[:2]))
    else:
        _, tot, per_atom, fused, clash = exp
        if clash:
            R.extra['descriptor named like a group (counts add)'] += 1
        if got[0] != 'ok':
            key = 'spurious-' + got[0] + (':' + got[1].split(':')[0] if got[0] == 'EXC' else '')
            msg = '%s decomposes to %r but the call gave %r' % (smiles, tot, got)
        elif fused:
            R.outcomes['fused-benzenoid:success/failure only'] += 1
            return
        elif not same_totals(got[1], tot):
            diff = sorted(k for k in set(got[1]) | set(tot)
                          if abs(got[1].get(k, 0) - tot.get(k, 0)) > 1e-9)
            key = 'wrong-totals:' + classify_names(diff, S)
            msg = '%s: returned %r, declared decomposition %r' % (
                smiles, {k: got[1].get(k) for k in diff}, {k: tot.get(k) for k in diff})
        elif got[2] is not None and got[2] != per_atom:
            bad = [i for i, (x, y) in enumerate(zip(got[2], per_atom)) if x != y]
            key = 'per-atom-assignment'
            msg = '%s: atom %d classified %r, declared %r' % (
                smiles, bad[0], got[2][bad[0]], per_atom[bad[0]])
        if key is None:
            R.outcomes[tag.split('/')[0] + ':same' + ('+per-atom' if got[2] is not None else '')] += 1
            if len(tot) >= 3:
                R.sample(dict(scheme=tag, molecule=smiles, descriptors=tot), limit=2)
    if key:
        R.outcomes['differs:' + key] += 1
        R.violation('%s:%s' % (tag.split('/')[0], key), '[%s] %s' % (tag, msg), wit)
    elif exp[0] == 'ok' and tag.startswith('library') and not exp[3]:
        # the same molecule as an OBJECT with all hydrogens explicit, given twice
        from rdkit import Chem
        obj = Chem.AddHs(Chem.MolFromSmiles(smiles))
        for n in (1, 2):
            g2 = impl_decompose(impl, obj)
            R.evals += 1
            if g2[0] != 'ok' or not same_totals(g2[1], exp[1]):
                R.outcomes['object-input:differs'] += 1
                R.violation('%s:object-input-call-%d' % (tag.split('/')[0], n),
                            '[%s] %s given as a hydrogen-explicit molecule object '
                            '(call %d on the same object): %r, declared %r' % (
                                tag, smiles, n, g2[:2], exp[1]), wit)
                break
        else:
            R.outcomes['object-input:same-twice'] += 1


def classify_names(diff, S):
    kinds = set()
    dn = set(n for n, _ in S['descriptors'])
    targets = set(t for v in S['remaps'].values() for _, t in v)
    for k in diff:
        if k in dn:
            kinds.add('descriptor')
        elif k in S['remaps'] or k in targets:
            kinds.add('remap')
        else:
            kinds.add('group')
    return '+'.join(sorted(kinds))


_IMPL = {}


def shipped(name):
    if name not in _IMPL:
        from pgradd.GroupAdd.Scheme import GroupAdditivityScheme
        _IMPL[name] = (GroupAdditivityScheme.Load(SD.scheme_path(name)),
                       SR.load_scheme(SD.scheme_path(name)))
    return _IMPL[name]


def run_shipped(R, name, i, n, tier, only=None):
    impl, S = shipped(name)
    mols = SD.molecules_for(name, tier)
    for smi in (mols[i::n] if only is None else [only]):
        compare(R, 'shipped/' + name, impl, S, smi,
                dict(kind='shipped', scheme=name, smiles=smi))


def run_names(R, name):
    """All nine library names on the curated list, through GroupLibrary."""
    from ..domains import molecules as MD
    lib = libs.load(name)
    S = SR.load_scheme(SD.scheme_path(name))
    cur = MD.CURATED_GAS + ['[C]$[C]', '[C]$[C].CC', 'CCC.[C]$[C]'] + (MD.CURATED_RU if SD.SURFACE.get(name) == 'Ru' else
                            MD.CURATED_SURFACE if name in SD.SURFACE else [])
    for smi in cur:
        compare(R, 'library/' + name, lib, S, smi,
                dict(kind='library', scheme=name, smiles=smi))


def run_synthetic(R, descs, tier, only=None):
    from pgradd.GroupAdd.Scheme import GroupAdditivityScheme
    mols = SD.synthetic_molecules(tier)
    with tempfile.TemporaryDirectory(prefix='pgv_c02_') as d:
        for desc in descs:
            dd = SD.synthetic_dict(desc)
            p = SD.write_scheme(dd, d)
            try:
                impl = GroupAdditivityScheme.Load(p)
            except Exception as e:     # noqa
                R.evals += 1
                R.violation('synthetic:load-%s' % type(e).__name__,
                            'scheme %r cannot be loaded: %s' % (desc, e),
                            dict(kind='synthetic', desc=[list(desc[0]), desc[1], desc[2]],
                                 smiles=None))
                continue
            S = SR.scheme_from_dict(dd)
            for smi in (mols if only is None else [only]):
                compare(R, 'synthetic/%s/%s' % (desc[1], desc[2]), impl, S, smi,
                        dict(kind='synthetic', desc=[list(desc[0]), desc[1], desc[2]],
                             smiles=smi))


def run_w3_synthetic(R, descs, tier, only=None):
    """Families N and R of domains/w3_c02.py: like run_synthetic, other
    scheme dictionaries."""
    from pgradd.GroupAdd.Scheme import GroupAdditivityScheme
    mols = SD.synthetic_molecules(tier)
    with tempfile.TemporaryDirectory(prefix='pgv_c02_') as d:
        for desc in descs:
            dd = W3.scheme_dict(desc)
            p = SD.write_scheme(dd, d)
            tag = W3.tag(desc)
            try:
                impl = GroupAdditivityScheme.Load(p)
            except Exception as e:     # noqa
                R.evals += 1
                R.violation('%s:load-%s' % (tag.split('/')[0], type(e).__name__),
                            'scheme %r cannot be loaded: %s' % (desc, e),
                            dict(kind='synthetic-w3', desc=W3.to_json(desc),
                                 smiles=None))
                continue
            S = SR.scheme_from_dict(dd)
            for smi in (mols if only is None else [only]):
                compare(R, tag, impl, S, smi,
                        dict(kind='synthetic-w3', desc=W3.to_json(desc),
                             smiles=smi))


def run_w5_synthetic(R, descs, tier, only=None):
    """Family K of domains/w5_c02.py: schemes with a count declaration."""
    from pgradd.GroupAdd.Scheme import GroupAdditivityScheme
    with tempfile.TemporaryDirectory(prefix='pgv_c02_') as d:
        for desc in descs:
            dd = W5.scheme_dict(desc)
            p = SD.write_scheme(dd, d)
            tag = W5.tag(desc)
            try:
                impl = GroupAdditivityScheme.Load(p)
            except Exception as e:     # noqa
                R.evals += 1
                R.violation('%s:load-%s' % (tag.split('/')[0], type(e).__name__),
                            'scheme %r cannot be loaded: %s' % (desc, e),
                            dict(kind='synthetic-w5', desc=W5.to_json(desc),
                                 smiles=None))
                continue
            S = SR.scheme_from_dict(dd)
            for smi in (W5.K_MOLECULES if only is None else [only]):
                compare(R, tag, impl, S, smi,
                        dict(kind='synthetic-w5', desc=W5.to_json(desc),
                             smiles=smi))


def run_ladder(R, name, i, n):
    """Family L: a shipped scheme on the substitution ladder."""
    impl, S = shipped(name)
    for smi in W5.ladder()[i::n]:
        compare(R, 'ladder/' + name, impl, S, smi,
                dict(kind='ladder', scheme=name, smiles=smi))


def run_ethenes(R, name, i, n):
    """Family E: a shipped scheme on the substituted ethenes."""
    impl, S = shipped(name)
    for smi in W3.ethenes()[i::n]:
        compare(R, 'shipped/' + name, impl, S, smi,
                dict(kind='shipped', scheme=name, smiles=smi))


def run_sixrings(R, name, i, n, tier):
    """Family Z: a shipped scheme on the six-ring spellings."""
    impl, S = shipped(name)
    for smi in W4.six_rings(tier)[i::n]:
        compare(R, 'sixring/' + name, impl, S, smi,
                dict(kind='sixring', scheme=name, smiles=smi))


def shards(tier, seed):
    out = []
    for name in SD.distinct_schemes():
        nch = 8 if tier == 'quick' else 48
        for i in range(nch):
            out.append(('shipped', name, i, nch))
    for name in libs.LIBS:
        out.append(('names', name))
    descs = list(SD.synthetic_schemes(tier))
    nch = 16 if tier == 'quick' else 64
    for i in range(nch):
        out.append(('synthetic', i, nch))
    nch = 24 if tier == 'quick' else 96
    for i in range(nch):
        out.append(('synthetic-w3', i, nch))
    for name in SD.distinct_schemes():
        for i in range(2):
            out.append(('ethenes', name, i, 2))
    nch = 4 if tier == 'quick' else 24
    for name in SD.distinct_schemes():
        for i in range(nch):
            out.append(('sixrings', name, i, nch))
    nch = 12 if tier == 'quick' else 24
    for i in range(nch):
        out.append(('synthetic-w5', i, nch))
    for name in SD.distinct_schemes():
        for i in range(2):
            out.append(('ladder', name, i, 2))
    return out


def run_shard(shard, tier):
    install_capture()
    R = Result()
    if shard[0] == 'shipped':
        run_shipped(R, shard[1], shard[2], shard[3], tier)
    elif shard[0] == 'names':
        run_names(R, shard[1])
    elif shard[0] == 'synthetic-w3':
        run_w3_synthetic(R, W3.schemes(tier)[shard[1]::shard[2]], tier)
    elif shard[0] == 'synthetic-w5':
        run_w5_synthetic(R, W5.count_schemes(tier)[shard[1]::shard[2]], tier)
    elif shard[0] == 'ladder':
        run_ladder(R, shard[1], shard[2], shard[3])
    elif shard[0] == 'ethenes':
        run_ethenes(R, shard[1], shard[2], shard[3])
    elif shard[0] == 'sixrings':
        run_sixrings(R, shard[1], shard[2], shard[3], tier)
    else:
        descs = list(SD.synthetic_schemes(tier))[shard[1]::shard[2]]
        run_synthetic(R, descs, tier)
    R.extra['per_atom_hook_available'] = 1 if _CAPTURE['installed'] else 0
    return R


def replay(w):
    install_capture()
    R = Result()
    if w['kind'] == 'shipped':
        run_shipped(R, w['scheme'], 0, 1, 'quick', only=w['smiles'])
    elif w['kind'] == 'sixring':
        impl, S = shipped(w['scheme'])
        compare(R, 'sixring/' + w['scheme'], impl, S, w['smiles'], w)
    elif w['kind'] == 'library':
        lib = libs.load(w['scheme'])
        S = SR.load_scheme(SD.scheme_path(w['scheme']))
        compare(R, 'library/' + w['scheme'], lib, S, w['smiles'], w)
    elif w['kind'] == 'ladder':
        impl, S = shipped(w['scheme'])
        compare(R, 'ladder/' + w['scheme'], impl, S, w['smiles'], w)
    elif w['kind'] == 'synthetic-w5':
        run_w5_synthetic(R, [W5.from_json(w['desc'])], 'quick', only=w['smiles'])
    elif w['kind'] == 'synthetic-w3':
        run_w3_synthetic(R, [W3.from_json(w['desc'])], 'quick', only=w['smiles'])
    else:
        desc = (tuple(w['desc'][0]), w['desc'][1], w['desc'][2])
        run_synthetic(R, [desc], 'quick', only=w['smiles'])
    return dict(violates=bool(R.violations),
                detail='\n'.join(v['msg'] for v in R.violations) or 'holds')
