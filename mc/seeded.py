"""Developer tool: run checks against seeded property-breaking changes.

  python -m mc.seeded verify /verif/seeded/<name> [--tier quick] [--all-checks]
  python -m mc.seeded all [--tier quick]

For one seeded change (patch.diff + demo + meta.json) this
  1. adds a scratch git worktree of /repo under $TMPDIR and applies the patch,
  2. runs the repository's own suite there (must still pass),
  3. runs the demonstration against the patched and the clean tree (must fail /
     pass),
  4. runs the property's check with PGRADD_VERIF_REPO=<worktree> and records
     whether a VIOLATION line is printed,
  5. removes the worktree again.
Nothing here is used by the registered checks.
"""
import argparse
import json
import os
import shutil
import subprocess
import sys
import tempfile
import time

from . import VERIF

PY = '/venv/bin/python'


def sh(cmd, cwd=None, env=None, timeout=3600):
    p = subprocess.run(cmd, cwd=cwd, env=env, stdout=subprocess.PIPE,
                       stderr=subprocess.STDOUT, timeout=timeout)
    return p.returncode, p.stdout.decode(errors='replace')


def verify(d, tier='quick', all_checks=False, keep=False):
    meta_p = os.path.join(d, 'meta.json')
    meta = json.load(open(meta_p))
    pid = meta['property']
    wt = tempfile.mkdtemp(prefix='pgv_seed_')
    os.rmdir(wt)
    res = dict(name=os.path.basename(d), property=pid)
    try:
        rc, out = sh(['git', '-C', '/repo', 'worktree', 'add', '-q', '--detach', wt, 'HEAD'])
        assert rc == 0, out
        env = dict(os.environ, PYTHONPATH=wt, PYTHONDONTWRITEBYTECODE='1')
        demo = meta.get('demo', 'demo.py')
        demo = os.path.join(d, demo) if demo else None
        res['demo_clean_rc'] = sh([PY, demo], cwd=wt, env=env)[0] if demo else None
        rc, out = sh(['git', '-C', wt, 'apply', os.path.join(d, 'patch.diff')])
        if rc != 0:
            rc, out = sh(['git', '-C', wt, 'apply', '-3', os.path.join(d, 'patch.diff')])
        assert rc == 0, 'patch does not apply: ' + out
        rc, out = sh([PY, '-m', 'pytest', '-q', '-p', 'no:cacheprovider', '--timeout=900'],
                     cwd=wt, env=env)
        res['suite'] = out.strip().splitlines()[-1][-60:] if out.strip() else ''
        res['suite_rc'] = rc
        res['demo_mutant_rc'] = sh([PY, demo], cwd=wt, env=env)[0] if demo else None
        checks = [pid] + [p for p in meta.get('also', []) if p != pid]
        if all_checks:
            checks = ['C%02d' % i for i in range(1, 21)]
        res['checks'] = {}
        for c in checks:
            t0 = time.time()
            env2 = dict(os.environ, PGRADD_VERIF_REPO=wt)
            rc, out = sh([os.path.join(VERIF, 'check'), c, '--tier', tier, '--no-evidence'],
                         cwd=VERIF, env=env2, timeout=7200)
            vio = [l for l in out.splitlines() if l.startswith('VIOLATION')]
            keys = [l.strip() for l in out.splitlines() if l.strip().startswith('key=')]
            res['checks'][c] = dict(rc=rc, violations=len(vio), keys=keys[:4],
                                    wall_s=round(time.time() - t0, 1))
    finally:
        if not keep:
            sh(['git', '-C', '/repo', 'worktree', 'remove', '--force', wt])
            shutil.rmtree(wt, ignore_errors=True)
            sh(['git', '-C', '/repo', 'worktree', 'prune'])
    return res


def main():
    ap = argparse.ArgumentParser()
    ap.add_argument('cmd', choices=['verify', 'all'])
    ap.add_argument('dir', nargs='?')
    ap.add_argument('--tier', default='quick')
    ap.add_argument('--all-checks', action='store_true')
    ap.add_argument('--only', help='substring of seeded dir names')
    ap.add_argument('--parallel', type=int, default=1,
                    help='seeded changes verified concurrently')
    a = ap.parse_args()
    if a.cmd == 'verify':
        r = verify(a.dir, a.tier, a.all_checks)
        print(json.dumps(r, indent=1))
        return
    root = os.path.join(VERIF, 'seeded')
    rows = []
    todo = []
    for n in sorted(os.listdir(root)):
        d = os.path.join(root, n)
        if not os.path.isfile(os.path.join(d, 'meta.json')):
            continue
        if a.only and a.only not in n:
            continue
        obsolete = json.load(open(os.path.join(d, 'meta.json'))).get('obsolete')
        if obsolete:
            print('%-28s OBSOLETE %s' % (n, obsolete[:160]), flush=True)
            rows.append(dict(name=n, obsolete=obsolete))
            continue
        todo.append((n, d))

    def one(nd):
        try:
            return nd[0], verify(nd[1], a.tier, a.all_checks)
        except AssertionError as e:
            return nd[0], e
    if a.parallel > 1:
        from concurrent.futures import ThreadPoolExecutor
        results = ThreadPoolExecutor(a.parallel).map(one, todo)
    else:
        results = map(one, todo)
    for n, r in results:
        if isinstance(r, AssertionError):
            print('%-28s ERROR %s' % (n, str(r)[:200]), flush=True)
            rows.append(dict(name=n, error=str(r)[:300]))
            continue
        own = r['checks'][r['property']]
        print('%-28s suite_rc=%s demo(clean/mutant)=%s/%s  %s: %s' % (
            n, r['suite_rc'], r['demo_clean_rc'], r['demo_mutant_rc'], r['property'],
            'DETECTED %s' % own['keys'][:1] if own['violations'] else 'MISSED') +
            ''.join('  %s:%s' % (c, 'D' if v['violations'] else 'miss')
                    for c, v in r['checks'].items() if c != r['property']), flush=True)
        rows.append(r)
    with open(os.path.join(root, 'results_%s.json' % (a.only or 'all').strip('-')), 'w') as f:
        json.dump(rows, f, indent=1)


if __name__ == '__main__':
    main()
