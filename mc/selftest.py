"""setup_cmd: nothing to build; verify the toolchain the checks need is present."""
import sys


def main():
    import rdkit, numpy, scipy, yaml, pmutt  # noqa
    import pgradd  # noqa
    from . import REPO
    import os
    assert os.path.realpath(os.path.dirname(os.path.dirname(pgradd.__file__))) \
        == os.path.realpath(REPO), (pgradd.__file__, REPO)
    print('mc selftest ok: pgradd from', pgradd.__file__)


if __name__ == '__main__':
    main()
