"""Markdown table of a seeded wave: python -m mc.seeded_table <before-dir> [<after-json>...] -- suffixes 7 8 9"""
import json, os, sys, glob


def first_key(entry):
    for pid, c in entry.get('checks', {}).items():
        if pid == entry.get('property') and c.get('keys'):
            return c['keys'][0].split('key=')[1].split(' (')[0]
    return None


def main():
    args = sys.argv[1:]
    before_dir = args[0]
    after_files = [a for a in args[1:] if a.endswith('.json')]
    before, after = {}, {}
    for f in sorted(glob.glob(os.path.join(before_dir, '*.json'))):
        for e in json.load(open(f)):
            before[e['name']] = e
    for f in after_files:
        for e in json.load(open(f)):
            after[e['name']] = e
    print('| change | what was changed | what it needs to manifest | detected (before repair) | first key |')
    print('|---|---|---|---|---|')
    for name in sorted(before):
        meta = json.load(open(os.path.join(os.path.dirname(__file__), '..', 'seeded', name, 'meta.json')))
        kb = first_key(before[name])
        if kb:
            det, key = 'yes', kb
        else:
            ka = first_key(after[name]) if name in after else None
            det = '**no**' + (' - after the repairs: yes' if ka else '')
            key = ka or '-'
        print('| %s | %s | %s | %s | `%s` |' % (name, meta['change'].replace('|', '/'),
                                              meta['needs'].replace('|', '/'), det, key))


if __name__ == '__main__':
    main()
