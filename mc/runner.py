"""Runner: tiering, process pool, stdout isolation, verdict lines, evidence.

A property module (mc/props/cNN.py) provides

  LEVEL        'exploration' | 'model_checking'
  RULE         text: how cases are enumerated / what makes one non-trivial
  ASSUMPTIONS  list of strings (trusted base)
  shards(tier, seed) -> list of picklable shard descriptors; the union of the
               shards IS the stated bounded space (disjoint by construction)
  run_shard(shard, tier) -> Result  (see class Result)
  replay(witness) -> dict(violates=bool, detail=str)   re-executes ONE witness
               without the explorer
  finish(merged, tier) -> optional dict of extra coverage keys

The runner never samples: `seed` only rotates the order in which shards are
walked (so a wall-clock cap, if ever hit, cuts a different part) and selects
the second PYTHONHASHSEED for the checks that ask for one.
"""
import argparse
import collections
import hashlib
import importlib
import json
import multiprocessing as mp
import os
import re
import subprocess
import sys
import time
import traceback

from . import VERIF, REPO

MAX_PRINT = 12          # VIOLATION lines printed (all are counted)
CAP_S = {'quick': 1500.0, 'thorough': 6 * 3600.0}


class Result(object):
    """What one shard reports.  All numbers are measured."""

    def __init__(self):
        self.evals = 0              # cases executed
        self.nontrivial = 0         # distinct cases non-trivial by RULE
        self.outcomes = collections.Counter()
        self.violations = []        # dict(key=, msg=, witness=)
        self.samples = []           # a few actual cases, written out
        self.extra = collections.Counter()   # additive extra counters
        self.states = 0
        self.transitions = 0
        self.traces = 0
        self.notes = []

    def violation(self, key, msg, witness):
        # keep the first (enumeration is simplest-first) witness per key, but
        # count every one
        self.extra['violating_cases'] += 1
        for v in self.violations:
            if v['key'] == key:
                v['count'] += 1
                return
        self.violations.append(dict(key=key, msg=msg, witness=witness,
                                    count=1))

    def sample(self, s, limit=4):
        if len(self.samples) < limit:
            self.samples.append(s)

    def pack(self):
        return dict(evals=self.evals, nontrivial=self.nontrivial,
                    outcomes=dict(self.outcomes), violations=self.violations,
                    samples=self.samples, extra=dict(self.extra),
                    states=self.states, transitions=self.transitions,
                    traces=self.traces, notes=self.notes)


# --------------------------------------------------------------- workers

_MOD = None


def silence():
    """fd 1 and 2 -> /dev/null: the library prints debugging text."""
    dn = os.open(os.devnull, os.O_WRONLY)
    os.dup2(dn, 1)
    os.dup2(dn, 2)
    sys.stdout = open(os.devnull, 'w')
    sys.stderr = open(os.devnull, 'w')
    try:
        from rdkit import RDLogger
        RDLogger.DisableLog('rdApp.*')
    except Exception:
        pass


def _winit(modname, quiet):
    global _MOD
    if quiet:
        silence()
    _MOD = importlib.import_module(modname)
    if hasattr(_MOD, 'worker_init'):
        _MOD.worker_init()


def _wrun(arg):
    idx, shard, tier = arg
    t0 = time.time()
    try:
        res = _MOD.run_shard(shard, tier)
        out = res.pack()
    except BaseException as e:      # noqa
        tb = traceback.format_exc()
        r = Result()
        frames = traceback.extract_tb(e.__traceback__)
        where = '%s:%s' % (os.path.basename(frames[-1].filename),
                           frames[-1].name) if frames else '?'
        r.violation('shard-crash:%s:%s' % (type(e).__name__, where),
                    'exploring this shard ended with an unexpected %s '
                    '(neither the implementation nor the oracle is allowed '
                    'to do that): %s' % (type(e).__name__, tb[-1500:]),
                    dict(kind='shard-crash', shard=shard, tier=tier,
                         exc=type(e).__name__))
        out = r.pack()
    for v in out['violations']:
        v['shard'] = dict(shard=shard, tier=tier)
    out['idx'] = idx
    out['wall'] = time.time() - t0
    return out


# --------------------------------------------------------------- findings

def load_findings():
    p = os.path.join(VERIF, 'known_findings.json')
    if not os.path.exists(p):
        return []
    return json.load(open(p)).get('findings', [])


def match_finding(findings, pid, key):
    for f in findings:
        if f['property'] == pid and re.fullmatch(f['key_pattern'], key):
            return f
    return None


def write_replay(pid, v):
    d = os.path.join(VERIF, 'replays', pid)
    os.makedirs(d, exist_ok=True)
    blob = json.dumps(dict(property=pid, key=v['key'], msg=v['msg'],
                           witness=v['witness'], shard=v.get('shard')),
                      indent=1, sort_keys=True, default=str)
    h = hashlib.sha1(blob.encode()).hexdigest()[:12]
    path = os.path.join(d, h + '.json')
    with open(path, 'w') as f:
        f.write(blob)
    return path


def revalidate(pid, path):
    """Re-execute a witness in a fresh process; True iff it violates again."""
    env = dict(os.environ)
    p = subprocess.run([sys.executable, '-m', 'mc.runner', pid, '--replay',
                        path], cwd=VERIF, env=env, stdout=subprocess.PIPE,
                       stderr=subprocess.PIPE, timeout=3600)
    return p.returncode == 1, p.stdout.decode(errors='replace')[-2000:]


# --------------------------------------------------------------- main

def shard_crash_replay(mod, w):
    try:
        mod.run_shard(w['shard'], w['tier'])
    except BaseException as e:   # noqa
        return dict(violates=type(e).__name__ == w['exc'],
                    detail='shard raised %r' % (e,))
    return dict(violates=False, detail='shard completed')


def main(argv=None):
    ap = argparse.ArgumentParser()
    ap.add_argument('pid')
    ap.add_argument('--tier', default=os.environ.get('VERIF_TIER', 'quick'),
                    choices=['quick', 'thorough'])
    ap.add_argument('--replay')
    ap.add_argument('--jobs', type=int,
                    default=int(os.environ.get('VERIF_JOBS', '0')) or
                    min(16, os.cpu_count() or 1))
    ap.add_argument('--no-evidence', action='store_true')
    ap.add_argument('--only', help='substring filter on shard repr (debug)')
    a = ap.parse_args(argv)
    pid = a.pid.upper()
    try:
        seed = int(os.environ.get('VERIF_SEED', '0'))
    except ValueError:
        seed = 0

    real_out = os.fdopen(os.dup(1), 'w', buffering=1)
    real_err = os.fdopen(os.dup(2), 'w', buffering=1)
    silence()
    modname = 'mc.props.' + pid.lower()
    mod = importlib.import_module(modname)

    if a.replay:
        w = json.load(open(a.replay))
        wit = w['witness']
        if isinstance(wit, dict) and wit.get('kind') == 'shard-crash':
            if hasattr(mod, 'worker_init'):
                mod.worker_init()
            r = shard_crash_replay(mod, wit)
        else:
            if hasattr(mod, 'worker_init'):
                mod.worker_init()
            r = mod.replay(wit)
            if not r['violates'] and w.get('shard'):
                # the violation may need what the explorer did earlier in the
                # same slice of the space (a stale cache, a remembered value):
                # re-walk that slice and look for the same root-cause key
                sh = w['shard']

                def tup(x):
                    return tuple(tup(i) for i in x) if isinstance(x, list) else x
                res = mod.run_shard(tup(sh['shard']), sh['tier'])
                hit = [v for v in res.violations if v['key'] == w.get('key')]
                r = dict(violates=bool(hit), detail='witness alone does not violate; '
                         're-walking its shard %s the same key: %s' % (
                             'reproduces' if hit else 'does NOT reproduce',
                             hit[0]['msg'][:500] if hit else ''))
        real_out.write('REPLAY property=%s key=%s violates=%s\n%s\n' % (
            pid, w.get('key'), r['violates'], r.get('detail', '')))
        real_out.flush()
        os._exit(1 if r['violates'] else 0)

    t0 = time.time()
    shards = list(mod.shards(a.tier, seed))
    if a.only:
        shards = [s for s in shards if a.only in repr(s)]
    n = len(shards)
    order = list(range(n))
    if n:
        rot = seed % n
        order = order[rot:] + order[:rot]
    cap = float(os.environ.get('VERIF_CAP_S', CAP_S[a.tier]))
    merged = Result()
    per_key = {}
    done = 0
    capped = False
    jobs = max(1, min(a.jobs, n))
    ctx = mp.get_context('spawn')
    real_err.write('[%s] tier=%s seed=%d shards=%d jobs=%d repo=%s\n' % (
        pid, a.tier, seed, n, jobs, REPO))
    hash_seeds = [os.environ.get('PYTHONHASHSEED', '0')]
    two = getattr(mod, 'TWO_HASH_SEEDS', ())
    if a.tier in two:
        # set iteration order is a hidden input of the loaders: the whole
        # space is walked a second time under another hash seed and the two
        # outcome histograms must be identical
        hash_seeds.append(str(1 + (seed * 7919 + 104729) % 4000000000))
    per_pass = []
    for pass_no, hs in enumerate(hash_seeds):
        os.environ['PYTHONHASHSEED'] = hs
        before = collections.Counter(merged.outcomes)
        done_pass = 0
        pool = ctx.Pool(jobs, initializer=_winit, initargs=(modname, True),
                        maxtasksperchild=1 if getattr(mod, 'FRESH_WORKERS', False) else None)
        try:
            it = pool.imap_unordered(
                _wrun, [(i, shards[i], a.tier) for i in order], chunksize=1)
            for out in it:
                done += 1
                done_pass += 1
                merged.evals += out['evals']
                merged.nontrivial += out['nontrivial']
                merged.outcomes.update(out['outcomes'])
                for k_, v_ in out['extra'].items():
                    if k_.startswith('max_'):
                        merged.extra[k_] = max(merged.extra[k_], v_)
                    else:
                        merged.extra[k_] += v_
                merged.states += out['states']
                merged.transitions += out['transitions']
                merged.traces += out['traces']
                merged.notes.extend(out['notes'])
                for s in out['samples']:
                    merged.sample(s, limit=400)
                for v in out['violations']:
                    if v['key'] in per_key:
                        per_key[v['key']]['count'] += v['count']
                        # keep the smallest witness
                        if len(json.dumps(v['witness'], default=str)) < len(
                                json.dumps(per_key[v['key']]['witness'],
                                           default=str)):
                            v['count'] = per_key[v['key']]['count']
                            per_key[v['key']] = v
                    else:
                        per_key[v['key']] = v
                if done % max(1, n // 10) == 0:
                    real_err.write('[%s] %d/%d shards, %d evals, %d keys, %.0fs\n'
                                   % (pid, done, n, merged.evals, len(per_key),
                                      time.time() - t0))
                if time.time() - t0 > cap:
                    capped = True
                    break
        finally:
            pool.terminate()
            pool.join()
        after = collections.Counter(merged.outcomes)
        after.subtract(before)
        per_pass.append(dict((k, v) for k, v in after.items() if v))
        if capped:
            break
    os.environ['PYTHONHASHSEED'] = hash_seeds[0]
    if (len(per_pass) == 2 and not capped
            and getattr(mod, 'HASH_SEED_COMPARE', 'counts') == 'labels'):
        # explicit-state searches: how many histories are merged into one
        # state may differ between the passes; the passes are compared on the
        # SET of outcome labels (a behaviour that depends on the hash seed
        # shows up as a label one pass does not have)
        per_pass = [dict((k, 1) for k in pp) for pp in per_pass]
    if len(per_pass) == 2 and not capped and per_pass[0] != per_pass[1]:
        diff = sorted(k for k in set(per_pass[0]) | set(per_pass[1])
                      if per_pass[0].get(k) != per_pass[1].get(k))
        per_key['hash-seed-dependent'] = dict(
            key='hash-seed-dependent', count=1,
            msg='the outcome histogram depends on PYTHONHASHSEED (%s vs %s): %s'
                % (hash_seeds[0], hash_seeds[1],
                   [(k, per_pass[0].get(k), per_pass[1].get(k)) for k in diff[:6]]),
            witness=dict(kind='hash-seed', seeds=hash_seeds))
    n_total = n * len(hash_seeds)

    extra_cov = {}
    if hasattr(mod, 'finish'):
        extra_cov = mod.finish(merged, a.tier) or {}

    findings = load_findings()
    known, unlisted = {}, []
    for key in sorted(per_key):
        v = per_key[key]
        f = match_finding(findings, pid, key)
        if f is not None:
            known.setdefault(f['id'], (f, []))[1].append(v)
        else:
            unlisted.append(v)

    status = 0
    printed = 0
    nondeterministic = []
    for v in unlisted:
        path = write_replay(pid, v)
        if printed < MAX_PRINT:
            if v['key'] == 'hash-seed-dependent':
                ok, detail = True, ''
            else:
                ok, detail = revalidate(pid, path)
            if not ok:
                nondeterministic.append((v, path, detail))
                continue
            real_out.write('VIOLATION property=%s replay=%s\n' % (pid, path))
            real_err.write('    key=%s (%d cases)\n    %s\n' % (
                v['key'], v['count'], v['msg'][:600]))
            printed += 1
        status = 1
    if len(unlisted) > printed + len(nondeterministic):
        real_err.write('[%s] %d further violation keys not printed (replays '
                       'written)\n' % (pid, len(unlisted) - printed -
                                       len(nondeterministic)))
    for fid in sorted(known):
        f, vs = known[fid]
        real_out.write('KNOWN-FINDING: property=%s %s: %s (%d cases in this '
                       'run)\n' % (pid, fid, f['description'],
                                   sum(v['count'] for v in vs)))
    if nondeterministic:
        for v, path, detail in nondeterministic:
            real_err.write('HARNESS-NONDETERMINISM property=%s key=%s: the '
                           'witness %s did not violate when re-executed in a '
                           'fresh process\n%s\n' % (pid, v['key'], path,
                                                    detail))
        if status == 0 or printed == 0:
            status = 3

    # show the richest cases first, then a spread of the others
    ss = sorted(merged.samples, key=lambda x: -len(json.dumps(x, default=str)))
    merged.samples = ss[:3] + ss[3::max(1, len(ss) // 3)][:3]
    wall = time.time() - t0
    exhaustive = (not capped) and done == n_total
    cov = dict(
        evaluations=int(merged.evals),
        distinct_nontrivial=int(merged.nontrivial),
        rule=mod.RULE,
        samples=merged.samples or ['(no case executed)'],
        exhaustive=bool(exhaustive),
        shards_total=n_total, shards_done=done, hash_seeds=hash_seeds,
        outcome_histogram=dict(sorted(merged.outcomes.items(),
                                      key=lambda kv: -kv[1])[:60]),
        distinct_outcomes=len(merged.outcomes),
        counters=dict(merged.extra),
        known_findings_reproduced=sorted(known),
        violation_keys=[v['key'] for v in unlisted][:50],
        bound=getattr(mod, 'BOUND', {}).get(a.tier, ''),
        repo=REPO,
    )
    if capped:
        cov['cap_hit_s'] = cap
        cov['explanation'] = ('wall-clock cap hit: %d of %d shards fully '
                              'explored; the rest were not started' % (done, n_total))
    if merged.notes:
        cov['notes'] = merged.notes[:20]
    if mod.LEVEL == 'model_checking':
        cov['states'] = int(merged.states)
        cov['transitions'] = int(merged.transitions)
        cov['traces_validated_against_impl'] = int(merged.traces)
    cov.update(extra_cov)
    ev = dict(property_id=pid, tier=a.tier, seed=seed, level=mod.LEVEL,
              coverage=cov, assumptions=list(mod.ASSUMPTIONS),
              wall_s=round(wall, 2), violations=len(unlisted))
    if not a.no_evidence and not a.only:
        os.makedirs(os.path.join(VERIF, 'evidence'), exist_ok=True)
        with open(os.path.join(VERIF, 'evidence', pid + '.json'), 'w') as f:
            json.dump(ev, f, indent=1, sort_keys=True, default=str)
            f.write('\n')
    real_err.write('[%s] %s: %d evaluations (%d non-trivial), %d distinct '
                   'outcomes, %d unlisted violation keys, %d known findings, '
                   'exhaustive=%s, %.1fs\n' % (
                       pid, 'FAIL' if status else 'ok', merged.evals,
                       merged.nontrivial, len(merged.outcomes), len(unlisted),
                       len(known), exhaustive, wall))
    if hasattr(mod, 'cleanup'):
        try:
            mod.cleanup()
        except Exception:     # noqa
            pass
    real_out.flush()
    real_err.flush()
    os._exit(status)


if __name__ == '__main__':
    main()
