"""Regenerates /verif/MANIFEST.json from the table below (run: /venv/bin/python -m mc.gen_manifest)."""
import json
import os
import re

from . import VERIF

BASELINE = ("cd /repo && /venv/bin/python -m pytest -ra -q -p no:cacheprovider "
            "--timeout=900 --continue-on-collection-errors")

TB = ('RDKit (SMILES parsing, sanitisation, AddHs, Kekulize, SSSR rings, '
      'canonical SMILES), PyYAML, numpy/scipy where the implementation calls '
      'them, pmutt constant tables, CPython')

# id -> (category, technique, text, note, design section)
CHECKS = {}


def reg(pid, cat, technique, text, note, ref):
    CHECKS[pid] = (cat, technique, text, note, ref)



def discover():
    import importlib
    d = os.path.join(VERIF, 'mc', 'props')
    for fn in sorted(os.listdir(d)):
        if re.fullmatch(r'c\d\d\.py', fn):
            m = importlib.import_module('mc.props.' + fn[:-3])
            if getattr(m, 'MANIFEST', None):
                M = m.MANIFEST
                reg(fn[:-3].upper(), m.LEVEL, M['technique'], M['text'],
                    M['note'] + ' Trusted base: ' + TB, M['ref'])


NOT_YET = {}


def main():
    discover()
    props = [json.loads(l) for l in open(os.path.join(VERIF, 'properties.jsonl'))]
    checks = []
    na = []
    for p in props:
        pid = p['id']
        if pid in CHECKS:
            cat, tech, text, note, ref = CHECKS[pid]
            checks.append(dict(
                property_id=pid,
                quick_cmd='./check %s --tier quick' % pid,
                thorough_cmd='./check %s --tier thorough' % pid,
                evidence_file='/verif/evidence/%s.json' % pid,
                replay_cmd_template='./check %s --replay {path}' % pid,
                engine='mc',
                level_claimed=dict(category=cat, text=text,
                                   design_ref='DESIGN.md section ' + ref),
                level_note=note, technique=tech))
        else:
            na.append(dict(property_id=pid, reason=NOT_YET.get(
                pid, 'check designed (DESIGN.md section 5) but not built yet; '
                     'no claim is made until it runs')))
    man = dict(
        version=1,
        setup_cmd='/venv/bin/python -m mc.selftest',
        hooks=dict(guard='PGRADD_VERIF', enable='no source hooks are needed: '
                   'observation points are wrapped from the harness process '
                   '(DESIGN.md 3.6); PGRADD_VERIF_REPO=<dir> selects the tree '
                   'under test (default /repo)',
                   baseline_off_cmd=BASELINE, source_commits=[],
                   add_only=True),
        engines=[dict(name='mc', path='/verif/mc',
                      serves_properties=sorted(CHECKS),
                      kind_free_text='hand-written bounded-exhaustive explorer '
                      '(product/language enumeration, explicit-state BFS over '
                      'the real transition functions, deviation enumeration) '
                      'with independent reference models')],
        checks=checks,
        not_applicable=na,
        notes='All checks run the working tree of /repo (editable install; '
              'nothing to build). Verdict lines and evidence come from '
              './check; known_findings.json lists recorded defects and '
              'repaired ones.')
    with open(os.path.join(VERIF, 'MANIFEST.json'), 'w') as f:
        json.dump(man, f, indent=1)
        f.write('\n')
    print('MANIFEST.json: %d checks, %d not claimed' % (len(checks), len(na)))


if __name__ == '__main__':
    main()
