"""Bounded-exhaustive model checking of pgradd (see /verif/DESIGN.md).

Importing this package puts the repository under test first on sys.path so
that `import pgradd` resolves to PGRADD_VERIF_REPO (default /repo): this is
how the same checks are run against scratch copies carrying a seeded change.
"""
import os
import sys

REPO = os.environ.get('PGRADD_VERIF_REPO', '/repo')
if REPO not in sys.path[:1]:
    sys.path.insert(0, REPO)
VERIF = os.path.dirname(os.path.dirname(os.path.abspath(__file__)))
