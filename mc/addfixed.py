"""usage: python -m mc.addfixed C05,C13 <commit> <what failed>  - appends a 'fixed' record (developer tool, never used at run time)"""
import json, sys, os
from . import VERIF
p = os.path.join(VERIF, 'known_findings.json')
d = json.load(open(p))
for pid in sys.argv[1].split(','):
    d['fixed'].append(dict(property=pid, commit=sys.argv[2], description=sys.argv[3],
                           line='fixed: property=%s %s %s' % (pid, sys.argv[2], sys.argv[3])))
json.dump(d, open(p, 'w'), indent=1); open(p, 'a').write('\n')
